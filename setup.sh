#!/bin/sh
# Build the framework offline from files on disk: the MIR fact extractor, then warm the analysed workspace once.
set -e
cd "$(dirname "$0")"
export CARGO_NET_OFFLINE=true
(cd driver && cargo +nightly build --offline)
python3 -m sa.dump default
python3 -c "from sa import fixture; fixture.ensure()"
