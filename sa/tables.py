"""A3: decision tables over the ordering domain, plus helpers about switches on enum discriminants / bools."""
import re

from .mir import backslice, Operand, AnchorMissing

CMP_OPS = {"Lt", "Le", "Gt", "Ge", "Eq", "Ne"}


def _truth(op, case):
    """truth of `lhs op rhs` when lhs <,=,> rhs (case in 'lt','eq','gt')"""
    return {
        "Lt": case == "lt", "Le": case in ("lt", "eq"), "Gt": case == "gt", "Ge": case in ("gt", "eq"),
        "Eq": case == "eq", "Ne": case != "eq",
    }[op]


class Cmp:
    """a switchInt on the (possibly negated) result of a primitive comparison"""

    def __init__(self, fn, sw, stmt_block, stmt, negated):
        self.fn = fn
        self.sw = sw                  # Block
        self.block = stmt_block
        self.stmt = stmt
        self.op = stmt.rv.op
        self.lhs, self.rhs = stmt.rv.ops
        self.negated = negated
        ts = dict((v, t) for v, t in sw.term.j["ts"])
        self.false_target = ts.get(0)
        self.true_target = sw.term.j["else"] if 0 in ts else None
        if self.false_target is None:
            # switch written as [[1, T]] else F
            self.true_target = ts.get(1)
            self.false_target = sw.term.j["else"]
        self.ln = sw.term.ln

    def target(self, case, flipped=False):
        """edge target taken when role A <,=,> role B (flipped: role A is the rhs)"""
        if flipped:
            case = {"lt": "gt", "gt": "lt", "eq": "eq"}[case]
        t = _truth(self.op, case)
        if self.negated:
            t = not t
        return self.true_target if t else self.false_target

    def __repr__(self):
        return "%s%s(%r, %r) @bb%d line %d" % ("!" if self.negated else "", self.op, self.lhs, self.rhs, self.sw.idx, self.ln)


def comparisons(fn):
    """all switches of fn that test a primitive comparison"""
    key = "cmps"
    if key in fn._cache:
        return fn._cache[key]
    out = []
    defs = fn.defs()
    for b in fn.blocks:
        if b.cleanup or b.term.k != "switch":
            continue
        d = b.term.discr
        if d.place is None or not d.place.is_local():
            continue
        l = d.place.local
        neg = False
        seen = set()
        while True:
            if l in seen:
                break
            seen.add(l)
            ds = [x for x in defs.get(l, []) if x[2] == "assign" and not fn.blocks[x[0]].cleanup]
            if len(ds) != 1:
                break
            blk, i, _, s = ds[0]
            rv = s.rv
            if rv.k == "bin" and rv.op in CMP_OPS:
                out.append(Cmp(fn, b, blk, s, neg))
                break
            if rv.k == "un" and rv.op == "Not" and rv.ops[0].place is not None and rv.ops[0].place.is_local():
                neg = not neg
                l = rv.ops[0].place.local
                continue
            if rv.k == "use" and rv.ops[0].place is not None and rv.ops[0].place.is_local():
                l = rv.ops[0].place.local
                continue
            break
    fn._cache[key] = out
    return out


def find_cmp(fn, role_a, role_b, what="comparison"):
    """the unique comparison whose operands satisfy role_a / role_b (predicates over (fn, Operand)); returns (Cmp, flipped)"""
    found = []
    for c in comparisons(fn):
        if role_a(fn, c.lhs) and role_b(fn, c.rhs):
            found.append((c, False))
        elif role_a(fn, c.rhs) and role_b(fn, c.lhs):
            found.append((c, True))
    if not found:
        raise AnchorMissing("%s: no %s found" % (fn.short, what))
    return found


def edge_does(fn, sw_idx, target, action_blocks, stop=None):
    """'yes' if every path from `target` to an exit (return, or back to the switch `sw_idx`, or a block in stop) passes an action block;
       'no' if no action block is reachable from target without re-entering the switch; else 'maybe'"""
    action_blocks = set(action_blocks)
    stop = set(stop or ())
    if target in action_blocks:
        return "yes"
    r = fn.reachable([target], avoid=action_blocks | {sw_idx} | stop)
    # can we reach an exit without action?
    exits = set(fn.returns())
    escaped = bool(r & exits)
    # back edge to switch / stop without passing action?
    g = fn.graph()
    for b in r:
        for s in g[b]:
            if s == sw_idx or s in stop:
                escaped = True
    reach_any = fn.reachable([target], avoid={sw_idx} | stop)
    hits = bool(reach_any & action_blocks)
    if not hits:
        return "no"
    if not escaped:
        return "yes"
    return "maybe"


def table(fn, cmp, flipped, action_blocks, stop=None):
    """(lt, eq, gt) -> 'yes'/'no'/'maybe' for the action"""
    return tuple(edge_does(fn, cmp.sw.idx, cmp.target(c, flipped), action_blocks, stop) for c in ("lt", "eq", "gt"))


# ---- roles ----------------------------------------------------------------------------------------------------

def role_field(name, of=None, mode="prov"):
    def pred(fn, op):
        if op.place is None:
            return False
        sl = backslice(fn, op, mode)
        return sl.has_field(name, of)
    return pred


def role_call(pat, mode="prov"):
    def pred(fn, op):
        if op.place is None:
            return False
        return backslice(fn, op, mode).has_call(pat)
    return pred


def role_arg(n, mode="prov"):
    def pred(fn, op):
        if op.place is None:
            return False
        return n in backslice(fn, op, mode).args
    return pred


def role_var(name, mode="prov"):
    def pred(fn, op):
        if op.place is None:
            return False
        ls = set(fn.var_locals(name))
        return bool(backslice(fn, op, mode).locals & ls)
    return pred


def role_const(v=None):
    def pred(fn, op):
        if op.is_const():
            return v is None or op.const_val() == v
        if op.place is not None:
            sl = backslice(fn, op, "prov")
            if not sl.args and not sl.calls and sl.consts and not sl.fields:
                return v is None or v in sl.const_vals()
        return False
    return pred


def role_any(*preds):
    return lambda fn, op: any(p(fn, op) for p in preds)


def role_all(*preds):
    return lambda fn, op: all(p(fn, op) for p in preds)


# ---- enum switches ---------------------------------------------------------------------------------------------

def discr_switches(fn):
    """switches on `discriminant(place)`: list of (switch Block, Place, {variant name: target}, otherwise)"""
    key = "dsw"
    if key in fn._cache:
        return fn._cache[key]
    out = []
    defs = fn.defs()
    for b in fn.blocks:
        if b.cleanup or b.term.k != "switch":
            continue
        d = b.term.discr
        if d.place is None or not d.place.is_local():
            continue
        ds = [x for x in defs.get(d.place.local, []) if x[2] == "assign"]
        if len(ds) != 1:
            continue
        s = ds[0][3]
        if s.rv.k != "discr":
            continue
        names = dict((v, n) for v, n in s.rv.j["vs"])
        tm = {}
        for v, t in b.term.j["ts"]:
            tm[names.get(v, str(v))] = t
        # variants not listed explicitly go to otherwise
        other = b.term.j["else"]
        for v, n in s.rv.j["vs"]:
            if n not in tm:
                tm.setdefault(n, other)
        out.append((b, s.rv.place, tm, other))
    fn._cache[key] = out
    return out


def variant_switch_on(fn, call_block):
    """the enum-discriminant switches whose scrutinee's provenance reaches the result of the call ending `call_block`"""
    out = []
    for (b, pl, tm, other) in discr_switches(fn):
        sl = backslice(fn, pl, "prov")
        if any(cb == call_block for cb, _ in sl.calls):
            out.append((b, pl, tm, other))
    return out


def bool_switch_targets(sw):
    """(true_target, false_target) of a switch on a bool"""
    ts = dict((v, t) for v, t in sw.term.j["ts"])
    if 0 in ts:
        return sw.term.j["else"], ts[0]
    if 1 in ts:
        return ts[1], sw.term.j["else"]
    return None, None


def field_updates(fn, field, of=None, base_local=None):
    """assignments to a place ending in `.field`: list of dict(block, idx, stmt, kind 'add'|'sub'|'set'|'other', operand Slice-able)"""
    out = []
    for b in fn.blocks:
        if b.cleanup:
            continue
        for i, s in enumerate(b.stmts):
            if s.k != "assign":
                continue
            fo = s.place.field_ofs()
            if not fo or fo[-1][1] != field or (of and of not in fo[-1][0]):
                continue
            if base_local is not None and s.place.local != base_local:
                continue
            kind, other = "other", None
            rv = s.rv
            if rv.k == "use" and rv.ops[0].is_const():
                kind = "set"
                other = rv.ops[0]
            else:
                sl = backslice(fn, rv.ops[0] if rv.ops else s.place, "prov") if rv.k in ("use", "cast") else None
                cand = []
                if rv.k == "bin":
                    cand = [(b.idx, s)]
                elif sl is not None:
                    cand = sl.binops
                for (_, bs) in cand:
                    if bs.rv.k != "bin":
                        continue
                    op = bs.rv.op
                    l, r = bs.rv.ops
                    def is_self(o):
                        return o.place is not None and o.place.field_ofs()[-1:] == fo[-1:]
                    if op in ("AddWithOverflow", "Add", "AddUnchecked") and (is_self(l) or is_self(r)):
                        kind, other = "add", (r if is_self(l) else l)
                    elif op in ("SubWithOverflow", "Sub", "SubUnchecked") and is_self(l):
                        kind, other = "sub", r
                if kind == "other" and rv.k == "use":
                    kind = "set"
                    other = rv.ops[0]
            out.append({"block": b.idx, "idx": i, "stmt": s, "kind": kind, "other": other, "ln": s.ln})
    return out


# ---- "X == Variant" atoms ------------------------------------------------------------------------------------

EQ_CALL = re.compile(r"^(std|core)::cmp::PartialEq::(eq|ne)$")


def slice_variants(fn, sl):
    """(adt, variant) constants a provenance slice bottoms out in: promoted constants and field-less aggregates"""
    out = set()
    for c in sl.consts:
        if "promoted" in c:
            op = Operand({"k": c})
            for av in fn.promoted_variants(op):
                out.add(av)
    for _, s in sl.aggs:
        if s.rv.j.get("ak") == "adt" and not s.rv.j["fields"]:
            out.add((s.rv.j["adt"], s.rv.j["variant"]))
    return out


class Atom:
    """a branch that tests `subject == adt::variant`: eq_edges / ne_edges are CFG edges (from, to) on which the
    equality is known to hold / not to hold"""

    def __init__(self, fn, sw, subject, eq_edges, ne_edges, ln):
        self.fn, self.sw, self.subject, self.eq_edges, self.ne_edges, self.ln = fn, sw, subject, eq_edges, ne_edges, ln


def variant_atoms(fn, adt, variant, subject_pred=None):
    """all tests of `<something> == adt::variant` in fn, in match form or PartialEq form.
    subject_pred(fn, Slice) filters on the provenance slice of the tested value."""
    key = ("atoms", adt, variant)
    out = []
    # 1. match on the discriminant
    for (b, pl, tm, other) in discr_switches(fn):
        t = fn.local_ty(pl.local) if pl.is_local() else None
        sl = backslice(fn, pl, "prov")
        names = set(tm)
        if variant not in names:
            continue
        # make sure it is the right enum: the scrutinee type (through refs) mentions the adt
        tys = {fn.local_ty(l) for l in sl.locals}
        if not any(adt in x for x in tys):
            continue
        if subject_pred is not None and not subject_pred(fn, sl):
            continue
        eq_edges = [(b.idx, tm[variant])]
        ne_edges = [(b.idx, t2) for n, t2 in tm.items() if n != variant and t2 != tm[variant]]
        out.append(Atom(fn, b.idx, sl, eq_edges, ne_edges, b.term.ln))
    # 2. PartialEq::eq / ne against a constant variant
    for cb in fn.calls(lambda t: t.callee is not None and EQ_CALL.search(t.callee) is not None):
        t = cb.term
        s0 = backslice(fn, t.args[0], "prov")
        s1 = backslice(fn, t.args[1], "prov")
        v0, v1 = slice_variants(fn, s0), slice_variants(fn, s1)
        if (adt, variant) in v1:
            subj = s0
        elif (adt, variant) in v0:
            subj = s1
        else:
            continue
        if subject_pred is not None and not subject_pred(fn, subj):
            continue
        is_ne = t.callee.endswith("::ne")
        for sw in _bool_switches_on(fn, cb.idx):
            (swb, negated) = sw
            tt, ft = bool_switch_targets(swb)
            truth_is_eq = (not is_ne) ^ negated
            eq_t, ne_t = (tt, ft) if truth_is_eq else (ft, tt)
            out.append(Atom(fn, swb.idx, subj, [(swb.idx, eq_t)], [(swb.idx, ne_t)], t.ln))
    return out


def bool_switch_on_place(fn):
    """switches directly on a projected place (e.g. `switch _6.0` of a tuple): list of (switch Block, Slice of the place)"""
    out = []
    for b in fn.blocks:
        if b.cleanup or b.term.k != "switch":
            continue
        d = b.term.discr
        if d.place is not None and not d.place.is_local():
            out.append((b, backslice(fn, d, "prov")))
    return out


def _bool_switches_on(fn, call_block):
    """switches whose discriminant is the (possibly negated) bool returned by the call ending call_block"""
    out = []
    dest = fn.blocks[call_block].term.dest
    defs = fn.defs()
    for b in fn.blocks:
        if b.cleanup or b.term.k != "switch":
            continue
        d = b.term.discr
        if d.place is None or not d.place.is_local():
            continue
        l, neg, seen = d.place.local, False, set()
        while l not in seen:
            seen.add(l)
            if l == dest.local and dest.is_local():
                # must be this call's definition (dest locals are single-assignment temporaries)
                out.append((b, neg))
                break
            ds = [x for x in defs.get(l, []) if x[2] == "assign" and not fn.blocks[x[0]].cleanup]
            if len(ds) != 1:
                break
            rv = ds[0][3].rv
            if rv.k == "un" and rv.op == "Not" and rv.ops[0].place is not None and rv.ops[0].place.is_local():
                neg = not neg
                l = rv.ops[0].place.local
            elif rv.k == "use" and rv.ops[0].place is not None and rv.ops[0].place.is_local():
                l = rv.ops[0].place.local
            else:
                break
    return out


def guarded_by_ne(fn, atoms, block):
    """every path from entry to `block` crosses an edge on which `subject != variant` holds"""
    ne = [e for a in atoms for e in a.ne_edges]
    if not ne:
        return False
    return block not in fn.reachable([0], avoid_edges=ne)


def guarded_by_eq(fn, atoms, block):
    """every path from entry to `block` crosses an edge on which `subject == variant` holds"""
    eq = [e for a in atoms for e in a.eq_edges]
    if not eq:
        return False
    return block not in fn.reachable([0], avoid_edges=eq)


def bool_call_guards(fn, call_pat, block, want=True, recv_pred=None):
    """every path from entry to `block` crosses the `want` edge of a switch on the bool returned by a call matching call_pat"""
    edges = []
    for cb in fn.calls_to(call_pat):
        if recv_pred is not None and not recv_pred(fn, cb.term):
            continue
        for (swb, neg) in _bool_switches_on(fn, cb.idx):
            tt, ft = bool_switch_targets(swb)
            if neg:
                tt, ft = ft, tt
            edges.append((swb.idx, tt if want else ft))
    if not edges:
        return False
    return block not in fn.reachable([0], avoid_edges=edges)


# ---- variant tables with constant propagation of booleans (A7a) ---------------------------------------------------

def explore_variant(fn, scrutinee_pred, variant, max_states=20000):
    """blocks reachable from entry when every discriminant switch whose scrutinee satisfies scrutinee_pred(fn, Slice) takes the edge of
    `variant`, with path-sensitive constant propagation of bool/integer locals assigned constants (the shape `matches!` expands to).
    Returns the set of reachable blocks."""
    dsw = {}
    for (b, pl, tm, other) in discr_switches(fn):
        if scrutinee_pred(fn, backslice(fn, pl, "prov")):
            dsw[b.idx] = (tm, other)
    seen = set()
    reach = set()
    stack = [(0, frozenset())]
    n = 0
    while stack and n < max_states:
        b, env = stack.pop()
        if (b, env) in seen:
            continue
        seen.add((b, env))
        n += 1
        reach.add(b)
        blk = fn.blocks[b]
        e = dict(env)
        for s in blk.stmts:
            if s.k == "assign" and s.place.is_local():
                if s.rv.k == "use" and s.rv.ops[0].is_const() and s.rv.ops[0].const_val() is not None:
                    e[s.place.local] = s.rv.ops[0].const_val()
                elif s.rv.k == "use" and s.rv.ops[0].place is not None and s.rv.ops[0].place.is_local() and s.rv.ops[0].place.local in e:
                    e[s.place.local] = e[s.rv.ops[0].place.local]
                elif s.rv.k == "un" and s.rv.op == "Not" and s.rv.ops[0].place is not None and s.rv.ops[0].place.is_local() and s.rv.ops[0].place.local in e:
                    e[s.place.local] = 0 if e[s.rv.ops[0].place.local] else 1
                else:
                    e.pop(s.place.local, None)
        t = blk.term
        if t.k == "call" and t.dest.is_local():
            e.pop(t.dest.local, None)
        env2 = frozenset(e.items())
        if t.k == "switch":
            if b in dsw:
                tm, other = dsw[b]
                stack.append((tm.get(variant, other), env2))
                continue
            d = t.discr
            if d.place is not None and d.place.is_local() and d.place.local in e:
                v = e[d.place.local]
                tgt = dict((vv, tt) for vv, tt in t.j["ts"]).get(v, t.j["else"])
                stack.append((tgt, env2))
                continue
        for s2 in t.succs():
            stack.append((s2, env2))
    return reach
