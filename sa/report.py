"""Engine C plumbing: rule instances, violations, known findings, evidence files, output contract."""
import json, os, sys, time, traceback

from .mir import AnchorMissing, short_path

VERIF = os.path.dirname(os.path.dirname(os.path.abspath(__file__)))
KNOWN_FILE = os.path.join(VERIF, "KNOWN_FINDINGS.txt")


def load_known():
    """KNOWN_FINDINGS.txt: lines `known: property=<id> key=<exact key> :: <what fails>`; `fixed:` lines suppress nothing."""
    known = {}
    fixed = []
    if os.path.exists(KNOWN_FILE):
        for line in open(KNOWN_FILE):
            line = line.strip()
            if line.startswith("known:"):
                body = line[len("known:"):].strip()
                head, _, what = body.partition("::")
                parts = dict(p.split("=", 1) for p in head.split() if "=" in p)
                if "property" in parts and "key" in parts:
                    known[(parts["property"], parts["key"])] = what.strip()
            elif line.startswith("fixed:"):
                fixed.append(line)
    return known, fixed


class Rule:
    def __init__(self, check, rid, text, floor=1):
        self.check = check
        self.id = rid
        self.text = text
        self.floor = floor
        self.instances = []     # dicts: fn, role, verdict, loc, detail
        self.violations = []

    def _loc(self, fn, ln):
        if fn is None:
            return None
        if isinstance(fn, str):
            return fn
        return fn.loc(ln)

    def ok(self, fn, role, detail="", ln=None):
        self.instances.append({"rule": self.id, "fn": getattr(fn, "short", fn), "role": role, "verdict": "ok",
                               "loc": self._loc(fn, ln), "detail": detail, "config": self.check.config})

    def fail(self, fn, role, message, ln=None, detail=None):
        fname = getattr(fn, "short", fn) or "-"
        key = "%s|%s|%s" % (self.id, fname, role)
        inst = {"rule": self.id, "fn": fname, "role": role, "verdict": "VIOLATION", "loc": self._loc(fn, ln),
                "detail": message, "config": self.check.config}
        self.instances.append(inst)
        v = {"key": key, "rule": self.id, "rule_text": self.text, "fn": fname, "role": role, "loc": self._loc(fn, ln),
             "message": message, "config": self.check.config}
        if detail is not None:
            v["detail"] = detail
        self.violations.append(v)

    def require(self, cond, fn, role, ok_detail, fail_message, ln=None, detail=None):
        if cond:
            self.ok(fn, role, ok_detail, ln)
        else:
            self.fail(fn, role, fail_message, ln, detail)
        return cond


class Check:
    """one run of one property's rules over one or more feature configurations"""

    def __init__(self, prop, tier, title=""):
        self.prop = prop
        self.tier = tier
        self.title = title
        self.rules = []
        self.config = "default"
        self.configs = []
        self.t0 = time.time()
        self.analysed = {}
        self.notes = []
        self.not_decided = []
        self.assumptions = []
        self.fixture_results = []
        self.mutant_results = []
        self.internal_errors = []

    def rule(self, rid, text, floor=1):
        for r in self.rules:
            if r.id == rid:
                return r
        r = Rule(self, rid, text, floor)
        self.rules.append(r)
        return r

    def run_rule(self, rid, text, floor, body, *args):
        """run `body(rule, *args)`; an AnchorMissing is a (fail-closed) violation of the rule"""
        r = self.rule(rid, text, floor)
        try:
            body(r, *args)
        except AnchorMissing as e:
            r.fail(None, "anchor", "anchor missing (fail closed): %s" % e)
        except Exception as e:  # checker bug: fail closed, but mark as internal
            tb = traceback.format_exc()
            self.internal_errors.append("%s: %s" % (rid, tb))
            r.fail(None, "internal", "internal checker error (fail closed): %r" % (e,), detail=tb)
        return r

    def finish(self):
        """write evidence + replay files, print the contract lines, return the exit code"""
        known, fixed = load_known()
        evid_dir = os.environ.get("VERIF_EVIDENCE_DIR") or os.path.join(VERIF, "evidence")
        replay_dir = os.path.join(evid_dir, "replay")
        os.makedirs(replay_dir, exist_ok=True)
        # remove stale replay files of this property
        for f in os.listdir(replay_dir):
            if f.startswith(self.prop + "."):
                os.remove(os.path.join(replay_dir, f))
        violations = []
        known_hits = []
        # floors: a rule whose instance count fell below what was counted on the pinned tree fails closed
        for r in self.rules:
            per_cfg = {}
            for i in r.instances:
                per_cfg.setdefault(i["config"], 0)
                per_cfg[i["config"]] += 1
            n = min(per_cfg.values()) if per_cfg else 0
            if n < r.floor:
                r.check.config = "default"
                r.fail(None, "floor", "rule evaluated %d instance(s), fewer than the %d confirmed on the pinned tree "
                               "(a rule that matches nothing would pass vacuously)" % (n, r.floor))
        seen = set()
        for r in self.rules:
            for v in r.violations:
                k = (self.prop, v["key"])
                if k in seen:
                    continue
                seen.add(k)
                if k in known:
                    known_hits.append((v, known[k]))
                else:
                    violations.append(v)
        for v, what in known_hits:
            print("KNOWN-FINDING: property=%s %s :: %s (%s)" % (self.prop, v["key"], what, v["loc"]))
        for n, v in enumerate(violations):
            path = os.path.join(replay_dir, "%s.%d.json" % (self.prop, n))
            with open(path, "w") as f:
                json.dump(v, f, indent=1)
            print("VIOLATION property=%s replay=%s" % (self.prop, path))
            print("    rule %s: %s" % (v["rule"], v["rule_text"]))
            print("    at %s in %s [%s] (config %s)" % (v["loc"], v["fn"], v["role"], v["config"]))
            print("    %s" % v["message"])
        instances = [i for r in self.rules for i in r.instances]
        distinct = {(i["rule"], i["fn"], i["role"]) for i in instances if i["fn"] not in (None, "-") and i["role"] not in ("anchor", "internal", "floor")}
        samples = []
        per_rule_seen = {}
        for i in instances:
            c = per_rule_seen.get(i["rule"], 0)
            if c < 80:
                samples.append(i)
                per_rule_seen[i["rule"]] = c + 1
        samples = samples[:600]
        ev = {
            "property_id": self.prop,
            "tier": self.tier,
            "seed": int(os.environ.get("VERIF_SEED", "0") or 0),
            "level": "other",
            "coverage": {
                "explanation": ("Static analysis of the MIR of /repo's current working tree (no foyer code is run). "
                                "Decides the structural clauses listed under `rules` — necessary conditions of the property "
                                "that hold on every path / instantiation / schedule — and NOT the behavioural statement as a whole; "
                                "see not_decided. " + self.title),
                "evaluations": len(instances),
                "distinct_nontrivial": len(distinct),
                "rule": ("an evaluation is one rule instance (rule id, function, role) located in the MIR facts and decided; "
                         "distinct = distinct (rule, function, role) triples whose anchor was found on real code; "
                         "anchor-missing / floor records are not counted"),
                "obligations": len(instances),
                "discharged": len([i for i in instances if i["verdict"] == "ok"]),
                "samples": samples,
                "rules": [{"id": r.id, "text": r.text, "floor": r.floor, "instances": len(r.instances),
                           "violations": len(r.violations)} for r in self.rules],
                "configurations": self.configs,
                "analysed": self.analysed,
                "fixtures": self.fixture_results,
                "canned_mutants": self.mutant_results,
                "known_findings_reported": [v["key"] for v, _ in known_hits],
                "not_decided": self.not_decided,
                "notes": self.notes,
                "trusted_base": ["rustc MIR construction / drop elaboration (nightly)", "driver/ fact extractor",
                                 "rule tables in rules/%s.py" % self.prop, "semantics of the foreign APIs named in the rules"],
                "exhaustive": False,
            },
            "assumptions": self.assumptions + [
                "a passing run means every listed structural clause is intact, not that the behaviour was observed",
                "#[cfg(test)] code is not part of the analysed build",
            ],
            "wall_s": round(time.time() - self.t0, 3),
            "violations": len(violations),
        }
        with open(os.path.join(evid_dir, "%s.json" % self.prop), "w") as f:
            json.dump(ev, f, indent=1)
        nrules = len(self.rules)
        print("%s: %d rule(s), %d instance(s) over config(s) %s: %d violation(s), %d known finding(s) [%.1fs]" % (
            self.prop, nrules, len(instances), ",".join(self.configs), len(violations), len(known_hits), time.time() - self.t0))
        if self.internal_errors:
            for e in self.internal_errors:
                sys.stderr.write(e + "\n")
        return 1 if violations else 0
