"""Engine B core: the MIR fact model, CFG utilities (A1), provenance / dependence slices (A2).

Everything here works on the JSON facts written by driver/ (see DESIGN.md Appendix A).  Nothing in this package
executes foyer code; all verdicts are computed from the compiler's representation of /repo's current sources.
"""
import glob, json, os, re
from collections import defaultdict, deque

from . import dump


class AnchorMissing(Exception):
    """A construct a rule is anchored on (function, call, comparison) could not be located: fail closed."""


# --------------------------------------------------------------------------------------------------------------
# model

class Place:
    __slots__ = ("local", "proj")

    def __init__(self, j):
        self.local = j["l"]
        self.proj = j["p"]

    def is_local(self):
        return not self.proj

    def fields(self):
        """names of the field projections, outermost last"""
        return [p["n"] for p in self.proj if isinstance(p, dict) and "f" in p]

    def field_ofs(self):
        return [(p["of"], p["n"]) for p in self.proj if isinstance(p, dict) and "f" in p]

    def has_deref(self):
        return "*" in self.proj

    def index_locals(self):
        return [p["ix"] for p in self.proj if isinstance(p, dict) and "ix" in p]

    def downcasts(self):
        return [p["dc"] for p in self.proj if isinstance(p, dict) and "dc" in p]

    def __repr__(self):
        s = "_%d" % self.local
        for p in self.proj:
            if p == "*":
                s = "(*%s)" % s
            elif isinstance(p, dict) and "f" in p:
                s += "." + p["n"]
            elif isinstance(p, dict) and "dc" in p:
                s = "(%s as %s)" % (s, p["dc"])
            elif isinstance(p, dict) and "ix" in p:
                s += "[_%d]" % p["ix"]
            else:
                s += "[..]"
        return s


class Operand:
    __slots__ = ("kind", "place", "const")

    def __init__(self, j):
        if "c" in j:
            self.kind, self.place, self.const = "copy", Place(j["c"]), None
        elif "m" in j:
            self.kind, self.place, self.const = "move", Place(j["m"]), None
        elif "k" in j:
            self.kind, self.place, self.const = "const", None, j["k"]
        else:
            self.kind, self.place, self.const = "other", None, j

    def is_const(self):
        return self.kind == "const"

    def const_val(self):
        return self.const.get("v") if self.const else None

    def const_fn(self):
        return self.const.get("fn") if self.const else None

    def const_item(self):
        return self.const.get("item") if self.const else None

    def __repr__(self):
        if self.place is not None:
            return ("move " if self.kind == "move" else "") + repr(self.place)
        if self.const is not None:
            if "fn" in self.const:
                return "fn " + self.const["fn"]
            if "v" in self.const:
                return "const %s" % self.const["v"]
            return "const " + str(self.const.get("item") or self.const.get("s"))
        return "?"


class Rvalue:
    __slots__ = ("k", "j", "ops", "place")

    def __init__(self, j):
        self.k = j["k"]
        self.j = j
        self.ops = []
        self.place = None
        if self.k in ("use", "cast", "un", "repeat"):
            self.ops = [Operand(j["x"])]
        elif self.k == "bin":
            self.ops = [Operand(j["l"]), Operand(j["r"])]
        elif self.k in ("ref", "rawptr", "discr"):
            self.place = Place(j["p"])
        elif self.k == "agg":
            self.ops = [Operand(f[1]) for f in j["fields"]]

    @property
    def op(self):
        return self.j.get("op")

    def agg_fields(self):
        return [(f[0], Operand(f[1])) for f in self.j["fields"]] if self.k == "agg" else []

    def __repr__(self):
        if self.k == "bin":
            return "%s(%r, %r)" % (self.j["op"], self.ops[0], self.ops[1])
        if self.k == "agg":
            return "%s::%s{%s}" % (self.j.get("adt", self.j.get("ak")), self.j.get("variant", ""),
                                   ", ".join("%s: %r" % (n, o) for n, o in self.agg_fields()))
        if self.k in ("ref", "rawptr"):
            return "&%s%r" % ("mut " if self.j.get("m") == "mut" else "", self.place)
        if self.k == "discr":
            return "discriminant(%r)" % self.place
        if self.ops:
            return "%s(%s)" % (self.k, ", ".join(map(repr, self.ops)))
        return self.k


class Stmt:
    __slots__ = ("k", "place", "rv", "ln", "j")

    def __init__(self, j):
        self.k = j["k"]
        self.j = j
        self.ln = j.get("ln", 0)
        self.place = Place(j["p"]) if "p" in j else None
        self.rv = Rvalue(j["rv"]) if "rv" in j else None

    def __repr__(self):
        if self.k == "assign":
            return "%r = %r" % (self.place, self.rv)
        return self.k


class Term:
    __slots__ = ("k", "j", "ln", "func", "args", "dest", "place", "discr", "_callee")

    def __init__(self, j):
        self.k = j["k"]
        self.j = j
        self.ln = j.get("ln", 0)
        self.func = Operand(j["f"]) if "f" in j else None
        self.args = [Operand(a) for a in j["a"]] if "a" in j else []
        self.dest = Place(j["d"]) if self.k == "call" else None
        self.place = Place(j["p"]) if "p" in j else None
        self.discr = Operand(j["d"]) if self.k == "switch" else None
        self._callee = None

    @property
    def callee(self):
        """def path of a direct callee (None for indirect calls)"""
        return self.func.const_fn() if self.func is not None and self.func.is_const() else None

    @property
    def resolved(self):
        return self.j.get("res")

    @property
    def callee_cid(self):
        return self.func.const.get("cid") if self.func is not None and self.func.const else None

    def generic_idx(self):
        return self.func.const.get("g", []) if self.func is not None and self.func.const else []

    @property
    def trait(self):
        return self.j.get("trait")

    def succs(self, cleanup=False, imaginary=False):
        k, j = self.k, self.j
        out = []
        if k in ("goto", "drop", "assert", "false_unwind"):
            out.append(j["to"])
        elif k == "call":
            if j["to"] is not None:
                out.append(j["to"])
        elif k == "switch":
            out.extend(t[1] for t in j["ts"])
            out.append(j["else"])
        elif k == "false_edge":
            out.append(j["to"])
            if imaginary:
                out.append(j["imag"])
        elif k == "yield":
            out.append(j["to"])
            if cleanup and j.get("drop") is not None:
                out.append(j["drop"])
        if cleanup and j.get("uw") is not None:
            out.append(j["uw"])
        return out

    def __repr__(self):
        if self.k == "call":
            return "call %s(%s) -> %r" % (self.callee or repr(self.func), ", ".join(map(repr, self.args)), self.dest)
        if self.k == "switch":
            return "switch %r %s else %s" % (self.discr, self.j["ts"], self.j["else"])
        if self.k == "drop":
            return "drop %r" % self.place
        return self.k


class Block:
    __slots__ = ("idx", "cleanup", "stmts", "term")

    def __init__(self, idx, j):
        self.idx = idx
        self.cleanup = j["c"]
        self.stmts = [Stmt(s) for s in j["s"]]
        self.term = Term(j["t"])


class Fn:
    def __init__(self, j, crate, form):
        self.j = j
        self.id = j["id"]
        self.cid = j.get("cid")
        self.kind = j["kind"]
        self.parent = j.get("parent")
        self.root = j.get("root", self.id)
        self.impl = j.get("impl")
        self.in_trait = j.get("in_trait")
        self.file = j["file"]
        self.lo, self.hi = j["lo"], j["hi"]
        self.argc = j["argc"]
        self.crate = crate
        self.form = form
        self._blocks = None
        self._vars = None
        self.upvars = j.get("upvars", [])
        self._cache = {}

    # -- lazily built views -------------------------------------------------------------------------------
    @property
    def blocks(self):
        if self._blocks is None:
            self._blocks = [Block(i, b) for i, b in enumerate(self.j["blocks"])]
        return self._blocks

    def local_ty(self, l):
        return self.crate.types[self.j["locals"][l]]

    def ty(self, idx):
        return self.crate.types[idx]

    def callee_generics(self, term):
        return [self.crate.types[i] for i in term.generic_idx()]

    def glue(self, term):
        return self.crate.glues[term.j["glue"]]

    @property
    def nlocals(self):
        return len(self.j["locals"])

    @property
    def vars(self):
        """user variable name -> list of Places (a name can be bound more than once)"""
        if self._vars is None:
            d = defaultdict(list)
            for name, pl in self.j["vars"]:
                if "l" in pl:
                    d[name].append(Place(pl))
            self._vars = d
        return self._vars

    def var_locals(self, name):
        return [p.local for p in self.vars.get(name, []) if p.is_local()]

    def local_name(self, l):
        for name, pls in self.vars.items():
            for p in pls:
                if p.is_local() and p.local == l:
                    return name
        return None

    @property
    def self_ty(self):
        return self.crate.types[self.impl["self_ty"]] if self.impl else None

    @property
    def impl_trait(self):
        return self.impl["trait"] if self.impl else None

    @property
    def short(self):
        return short_path(self.id)

    def loc(self, ln=None):
        return "%s:%d" % (self.file, ln if ln else self.lo)

    # -- iteration ---------------------------------------------------------------------------------------
    def calls(self, pred=None, cleanup=False):
        out = []
        for b in self.blocks:
            if b.cleanup and not cleanup:
                continue
            if b.term.k == "call":
                if pred is None or pred(b.term):
                    out.append(b)
        return out

    def calls_to(self, pat, cleanup=False):
        """blocks whose terminator calls a function whose path matches `pat` (regex searched in callee path)"""
        rx = re.compile(pat)
        return self.calls(lambda t: t.callee is not None and rx.search(t.callee) is not None, cleanup)

    def returns(self):
        return [b.idx for b in self.blocks if b.term.k == "return" and not b.cleanup]

    # -- CFG (A1) ----------------------------------------------------------------------------------------
    def succs(self, b, cleanup=False):
        return self.blocks[b].term.succs(cleanup=cleanup)

    def graph(self, cleanup=False):
        key = ("graph", cleanup)
        if key not in self._cache:
            g = [self.blocks[i].term.succs(cleanup=cleanup) for i in range(len(self.blocks))]
            self._cache[key] = g
        return self._cache[key]

    def preds(self, cleanup=False):
        key = ("preds", cleanup)
        if key not in self._cache:
            p = [[] for _ in self.blocks]
            for i, ss in enumerate(self.graph(cleanup)):
                for s in ss:
                    p[s].append(i)
            self._cache[key] = p
        return self._cache[key]

    def reachable(self, starts, avoid=(), cleanup=False, avoid_edges=()):
        """blocks reachable from `starts` (inclusive) without entering a block of `avoid` / crossing avoid_edges"""
        g = self.graph(cleanup)
        avoid = set(avoid)
        avoid_edges = set(avoid_edges)
        seen = set()
        dq = deque(s for s in starts if s not in avoid)
        while dq:
            b = dq.popleft()
            if b in seen:
                continue
            seen.add(b)
            for s in g[b]:
                if s in avoid or (b, s) in avoid_edges or s in seen:
                    continue
                dq.append(s)
        return seen

    def live_blocks(self):
        if "live" not in self._cache:
            self._cache["live"] = self.reachable([0])
        return self._cache["live"]

    def dominators(self):
        """immediate-dominator-free formulation: dom[b] = set of blocks dominating b (non-cleanup CFG)"""
        if "dom" in self._cache:
            return self._cache["dom"]
        live = sorted(self.live_blocks())
        preds = self.preds()
        allb = set(live)
        dom = {b: set(allb) for b in live}
        dom[0] = {0}
        changed = True
        # reverse post order would be faster; functions are small
        while changed:
            changed = False
            for b in live:
                if b == 0:
                    continue
                ps = [p for p in preds[b] if p in allb]
                if not ps:
                    continue
                new = set.intersection(*(dom[p] for p in ps)) | {b}
                if new != dom[b]:
                    dom[b] = new
                    changed = True
        self._cache["dom"] = dom
        return dom

    def dominates(self, a, b):
        """block a dominates block b (every non-cleanup path from entry to b goes through a)"""
        d = self.dominators()
        return b in d and a in d[b]

    def pos_dominates(self, pa, pb):
        """positions are (block, stmt index) with the terminator at index len(stmts)"""
        if pa[0] == pb[0]:
            return pa[1] <= pb[1]
        return self.dominates(pa[0], pb[0])

    def must_pass(self, start, through, targets=None, avoid_edges=()):
        """every non-cleanup path from block `start` to a block in `targets` (default: return blocks) enters a block of
        `through`.  Returns (ok, witness_path_end) """
        if targets is None:
            targets = self.returns()
        through = set(through)
        if start in through:
            return True
        r = self.reachable([start], avoid=through, avoid_edges=avoid_edges)
        bad = [t for t in targets if t in r]
        return not bad

    def edge_guards(self, sw, tgt, b):
        """every path from entry to block b crosses the CFG edge sw->tgt"""
        if b not in self.live_blocks():
            return True
        r = self.reachable([0], avoid_edges=[(sw, tgt)])
        return b not in r

    def path(self, start, goal, avoid=(), avoid_edges=()):
        """one shortest non-cleanup path start -> goal (list of blocks) or None"""
        g = self.graph()
        avoid = set(avoid)
        avoid_edges = set(avoid_edges)
        prev = {start: None}
        dq = deque([start])
        while dq:
            b = dq.popleft()
            if b == goal:
                out = []
                while b is not None:
                    out.append(b)
                    b = prev[b]
                return out[::-1]
            for s in g[b]:
                if s in prev or s in avoid or (b, s) in avoid_edges:
                    continue
                prev[s] = b
                dq.append(s)
        return None

    def lines_of(self, blocks):
        out = []
        for b in blocks:
            t = self.blocks[b].term
            if t.ln:
                out.append(t.ln)
        return out

    # -- definitions / uses ------------------------------------------------------------------------------
    def defs(self):
        """local -> list of (block, stmt_index|None for terminator, kind, payload)
        kind: 'assign' (payload Stmt), 'call' (payload Term), 'yield' (payload Term)"""
        if "defs" in self._cache:
            return self._cache["defs"]
        d = defaultdict(list)
        for b in self.blocks:
            for i, s in enumerate(b.stmts):
                if s.k == "assign":
                    d[s.place.local].append((b.idx, i, "assign", s))
            t = b.term
            if t.k == "call":
                d[t.dest.local].append((b.idx, None, "call", t))
            elif t.k == "yield":
                ra = Place(t.j["ra"])
                d[ra.local].append((b.idx, None, "yield", t))
        self._cache["defs"] = d
        return d

    def ref_uses(self):
        """local L -> list of locals T such that `T = &[mut] L...` (borrows of L or of something inside L)"""
        if "refuses" in self._cache:
            return self._cache["refuses"]
        d = defaultdict(list)
        for b in self.blocks:
            for s in b.stmts:
                if s.k == "assign" and s.rv.k in ("ref", "rawptr") and s.place.is_local():
                    d[s.rv.place.local].append((s.place.local, s.rv.j.get("m"), b.idx))
        self._cache["refuses"] = d
        return d

    def arg_uses(self):
        """local T -> list of (block, arg index, Term) where T (or a projection of it) is passed to a call"""
        if "arguses" in self._cache:
            return self._cache["arguses"]
        d = defaultdict(list)
        for b in self.blocks:
            t = b.term
            if t.k == "call":
                for i, a in enumerate(t.args):
                    if a.place is not None:
                        d[a.place.local].append((b.idx, i, t))
        self._cache["arguses"] = d
        return d

    def promoted(self, idx):
        ps = self.j.get("promoted") or []
        if idx is None or idx >= len(ps):
            return None
        key = ("prom", idx)
        if key not in self._cache:
            self._cache[key] = Fn(ps[idx], self.crate, self.form)
        return self._cache[key]

    def promoted_variants(self, op):
        """for an operand that is a promoted constant: the (adt, variant) aggregates built in the promoted body"""
        if op.const is None or "promoted" not in op.const:
            return []
        p = self.promoted(op.const["promoted"])
        out = []
        if p is None:
            return out
        for b in p.blocks:
            for s in b.stmts:
                if s.k == "assign" and s.rv.k == "agg" and s.rv.j.get("adt"):
                    out.append((s.rv.j["adt"], s.rv.j.get("variant")))
                if s.k == "assign" and s.rv.k == "use" and s.rv.ops[0].is_const() and "v" in s.rv.ops[0].const:
                    out.append(("const", s.rv.ops[0].const["v"]))
        return out

    def stmt_pos(self, blk, idx):
        return (blk, idx if idx is not None else len(self.blocks[blk].stmts))

    def dump(self, blocks=None):
        out = []
        for b in self.blocks:
            if blocks is not None and b.idx not in blocks:
                continue
            out.append("bb%d%s:" % (b.idx, " (cleanup)" if b.cleanup else ""))
            for s in b.stmts:
                if s.k != "dead":
                    out.append("    %r   // %d" % (s, s.ln))
            out.append("    T %r -> %s  // %d" % (b.term, b.term.succs(), b.term.ln))
        return "\n".join(out)


class Crate:
    def __init__(self, j):
        self.name = j["crate"]
        self.types = j["types"]
        self.glues = j["glues"]
        self.impls = j["impls"]
        self.adts = {a["path"]: a for a in j["adts"]}
        self.P = {}
        self.E = {}
        for f in j["P"]:
            self.P[f["id"]] = Fn(f, self, "P")
        for f in j["E"]:
            self.E[f["id"]] = Fn(f, self, "E")


def short_path(p):
    """drop generic parameter lists: foyer_memory::raw::RawCacheShard::<E, S, I>::emplace -> ...RawCacheShard::emplace"""
    out, depth = [], 0
    i = 0
    while i < len(p):
        c = p[i]
        if c == "<":
            # keep `<T as Trait>::` qualified-self forms (they start the path or follow `::` without a preceding `::<`)
            if p[i - 2:i] == "::" and depth == 0:
                # turbofish generic list -> drop
                depth_local = 1
                i += 1
                while i < len(p) and depth_local:
                    if p[i] == "<":
                        depth_local += 1
                    elif p[i] == ">":
                        depth_local -= 1
                    i += 1
                # remove the trailing '::' we already emitted
                if out[-2:] == [":", ":"]:
                    out = out[:-2]
                continue
        out.append(c)
        i += 1
    return "".join(out)


class Facts:
    """all analysed crates of one feature configuration"""

    def __init__(self, config="default", directory=None, crates=None):
        self.config = config
        d = directory or dump.ensure(config)
        self.dir = d
        self.crates = {}
        for c in (crates or dump.CRATES):
            fs = glob.glob(os.path.join(d, c + ".*.json"))
            if len(fs) != 1:
                raise AnchorMissing("fact file for crate %s missing in %s" % (c, d))
            with open(fs[0]) as fh:
                self.crates[c] = Crate(json.load(fh))
        self.P = {}
        self.E = {}
        for c in self.crates.values():
            self.P.update(c.P)
            self.E.update(c.E)
        self.by_cid = {"P": {}, "E": {}}
        for form, tab in (("P", self.P), ("E", self.E)):
            for f in tab.values():
                if f.cid:
                    self.by_cid[form][f.cid] = f
        self._short = {"P": defaultdict(list), "E": defaultdict(list)}
        for form, tab in (("P", self.P), ("E", self.E)):
            for fid, f in tab.items():
                self._short[form][short_path(fid)].append(f)

    def counts(self):
        return {c: {"P": len(cr.P), "E": len(cr.E)} for c, cr in self.crates.items()}

    def fn(self, short, form="P"):
        """look a function up by its generics-free def path; exactly one must exist (fail closed)"""
        fs = self._short[form].get(short, [])
        if len(fs) != 1:
            # allow suffix match
            cands = [f for k, v in self._short[form].items() if k.endswith("::" + short) or k == short for f in v]
            if len(cands) == 1:
                return cands[0]
            raise AnchorMissing("function `%s` not found (matches: %d) in %s-form facts" % (short, len(cands) or len(fs), form))
        return fs[0]

    def method(self, self_adt, name, trait=None, form="P"):
        """function `name` of an impl whose self type's ADT path is `self_adt` (generics ignored); `trait` = None for
        inherent impls, a trait path suffix (e.g. 'Future::poll' -> 'Future') otherwise.  Exactly one must exist."""
        tab = self.P if form == "P" else self.E
        out = []
        for f in tab.values():
            if f.kind not in ("fn", "assoc_fn") or not f.impl:
                continue
            st = f.self_ty.split("<")[0]
            if st != self_adt:
                continue
            if f.id.rsplit("::", 1)[-1] != name:
                continue
            tr = f.impl_trait
            if trait is None and tr is not None:
                continue
            if trait is not None and (tr is None or not (tr == trait or tr.endswith("::" + trait))):
                continue
            out.append(f)
        if len(out) != 1:
            raise AnchorMissing("method `%s` of `%s`%s not found (matches: %d) in %s-form facts" % (
                name, self_adt, " as " + trait if trait else "", len(out), form))
        return out[0]

    def callee_fn(self, term, form="P"):
        """the analysed body of a direct callee (exact, via the canonical definition path), or None"""
        cid = term.callee_cid
        return self.by_cid[form].get(cid) if cid else None

    def fn_opt(self, short, form="P"):
        try:
            return self.fn(short, form)
        except AnchorMissing:
            return None

    def fns(self, pat, form="P"):
        rx = re.compile(pat)
        tab = self.P if form == "P" else self.E
        return [f for fid, f in sorted(tab.items()) if rx.search(short_path(fid))]

    def children(self, fn, form=None):
        """closures / coroutines whose parent is fn"""
        tab = self.P if (form or fn.form) == "P" else self.E
        return [f for f in tab.values() if f.parent == fn.id]

    def descendants(self, fn, form=None):
        out = []
        st = [fn]
        while st:
            f = st.pop()
            for c in self.children(f, form):
                out.append(c)
                st.append(c)
        return out

    def other_form(self, fn):
        tab = self.E if fn.form == "P" else self.P
        return tab.get(fn.id)

    def impls_of(self, trait):
        out = []
        for c in self.crates.values():
            for im in c.impls:
                if im["trait"] == trait:
                    out.append(im)
        return out

    def all_fns(self, form="P"):
        tab = self.P if form == "P" else self.E
        return [tab[k] for k in sorted(tab)]


# --------------------------------------------------------------------------------------------------------------
# A2: provenance / dependence slices

# calls through which a value's identity is preserved (Appendix B)
TRANSPARENT = [
    r"^core::ops::Deref::deref$", r"^core::ops::DerefMut::deref_mut$", r"^std::ops::Deref::deref$", r"^std::ops::DerefMut::deref_mut$",
    r"^core::borrow::Borrow::borrow$", r"^std::borrow::Borrow::borrow$", r"^core::convert::AsRef::as_ref$", r"^std::convert::AsRef::as_ref$",
    r"^std::convert::AsMut::as_mut$", r"^core::convert::AsMut::as_mut$",
    r"^std::option::Option::<T>::(unwrap|expect|unwrap_or_default|as_ref|as_mut|take|unwrap_unchecked|as_deref|as_deref_mut|copied|cloned)$",
    r"^core::option::Option::<T>::(unwrap|expect|unwrap_or_default|as_ref|as_mut|take|unwrap_unchecked|as_deref|as_deref_mut|copied|cloned)$",
    r"^std::result::Result::<T, E>::(unwrap|expect|as_ref|as_mut|ok)$", r"^core::result::Result::<T, E>::(unwrap|expect|as_ref|as_mut|ok)$",
    r"^std::ops::Try::branch$", r"^core::ops::Try::branch$", r"^std::ops::FromResidual::from_residual$",
    r"^std::convert::Into::into$", r"^std::convert::From::from$", r"^core::convert::Into::into$", r"^core::convert::From::from$",
    r"^std::sync::Arc::<T>::new$", r"^std::boxed::Box::<T>::new$", r"^std::pin::Pin::<Ptr>::new", r"^std::boxed::Box::<T>::pin$",
    r"^std::ops::Index::index$", r"^std::ops::IndexMut::index_mut$",
    r"^std::future::IntoFuture::into_future$", r"^std::pin::Pin::<Ptr>::(as_mut|get_mut|as_ref|get_ref|new_unchecked|get_unchecked_mut|into_inner)",
    r"^std::pin::Pin::<&'a mut T>::(get_mut|get_unchecked_mut)", r"^std::iter::IntoIterator::into_iter$",
    r"^(std|core|futures_util|futures_core)::(future::)?Future::poll$", r"^futures_util::FutureExt::poll_unpin$",
]
CLONE = [r"^std::clone::Clone::clone$", r"^core::clone::Clone::clone$"]
_TRANSPARENT_RX = re.compile("|".join(TRANSPARENT))
_CLONE_RX = re.compile("|".join(CLONE))


def is_transparent(callee, through_clone=True, extra=None):
    if callee is None:
        return False
    if _TRANSPARENT_RX.search(callee):
        return True
    if through_clone and _CLONE_RX.search(callee):
        return True
    if extra is not None and extra.search(callee):
        return True
    return False


class Slice:
    """result of a backward slice: the atoms the sliced value is computed from"""

    def __init__(self):
        self.locals = set()
        self.args = set()          # parameter locals reached (1..argc)
        self.calls = []            # (block, Term) of calls whose result is reached
        self.consts = []           # const dicts
        self.fields = set()        # (adt path, field name) projections read on the way
        self.stmts = []            # (block, Stmt)
        self.binops = []           # (block, Stmt)
        self.aggs = []             # (block, Stmt)
        self.upvars = set()        # names of closure upvars read (for closure bodies)

    def callees(self):
        return [t.callee for _, t in self.calls if t.callee]

    def has_call(self, pat):
        rx = re.compile(pat)
        return any(t.callee and rx.search(t.callee) for _, t in self.calls)

    def call_blocks(self, pat):
        rx = re.compile(pat)
        return [b for b, t in self.calls if t.callee and rx.search(t.callee)]

    def has_field(self, name, of=None):
        return any(n == name and (of is None or of in o) for o, n in self.fields)

    def const_items(self):
        return [c.get("item") for c in self.consts if c.get("item")]

    def const_vals(self):
        return [c.get("v") for c in self.consts if "v" in c]

    def __repr__(self):
        return "Slice(args=%s calls=%s fields=%s consts=%s upvars=%s)" % (
            sorted(self.args), [short_path(c) for c in self.callees()], sorted(self.fields),
            [c.get("v", c.get("item")) for c in self.consts], sorted(self.upvars))


def backslice(fn, start, mode="prov", extra_transparent=None, through_clone=True, max_steps=20000, stop_at=None, opaque=None):
    """Backward slice of `start` (Operand | Place | local index | list of those).

    mode == 'prov' : follow copies, moves, borrows, field projections, casts and *transparent* calls only — the
                     roots answer "which value is this".
    mode == 'dep'  : additionally follow every call from its result to its arguments, arithmetic, aggregates and
                     mutation through `&mut` — the roots answer "what may this value depend on".
    Flow-insensitive over multiple assignments of one local (all reaching and non-reaching definitions are
    included), which over-approximates dependence — the conservative direction for "depends on" rules.
    """
    sl = Slice()
    defs = fn.defs()
    refuses = fn.ref_uses()
    arguses = fn.arg_uses()
    extra = re.compile("|".join(extra_transparent)) if extra_transparent else None
    opaque_rx = re.compile(opaque) if opaque else None
    work = []

    def push_place(pl):
        for of, n in pl.field_ofs():
            sl.fields.add((of, n))
        if fn.kind in ("closure", "coroutine") and pl.local == 1:
            # upvar access (*_1).name or _1.name
            fs = pl.fields()
            if fs:
                sl.upvars.add(fs[0])
        # field-sensitive for the first projection: `_6.1` where `_6 = (a, b)` continues in `b` only
        first = None
        if pl.proj and isinstance(pl.proj[0], dict) and "f" in pl.proj[0]:
            first = pl.proj[0]["f"]
        work.append((pl.local, first))
        for ix in pl.index_locals():
            work.append((ix, None))

    def push_op(op):
        if op.place is not None:
            push_place(op.place)
        elif op.const is not None:
            sl.consts.append(op.const)

    def push_any(x):
        if isinstance(x, Operand):
            push_op(x)
        elif isinstance(x, Place):
            push_place(x)
        elif isinstance(x, int):
            work.append((x, None))
        elif isinstance(x, (list, tuple, set)):
            for y in x:
                push_any(y)
        else:
            raise TypeError(x)

    push_any(start)
    steps = 0
    seen_items = set()
    while work:
        item = work.pop()
        if item in seen_items:
            continue
        seen_items.add(item)
        l, fld = item
        if fld is not None:
            # only aggregate definitions can be narrowed to one field; anything else is the whole local
            ds = [d for d in defs.get(l, []) if not fn.blocks[d[0]].cleanup]
            if ds and all(d[2] == "assign" and d[3].rv.k == "agg" and d[3].place.is_local() and d[3].rv.j.get("ak") in ("tuple", "adt", "closure", "coroutine")
                          for d in ds):
                sl.locals.add(l)
                for d in ds:
                    ops = d[3].rv.ops
                    sl.stmts.append((d[0], d[3]))
                    if fld < len(ops):
                        push_op(ops[fld])
                continue
            work.append((l, None))
            continue
        if l in sl.locals and (l, "whole") in seen_items:
            continue
        seen_items.add((l, "whole"))
        sl.locals.add(l)
        steps += 1
        if steps > max_steps:
            break
        if 1 <= l <= fn.argc:
            sl.args.add(l)
        for (b, i, kind, payload) in defs.get(l, []):
            if fn.blocks[b].cleanup:
                continue
            if stop_at is not None and stop_at(b, i, kind, payload):
                continue
            if kind == "assign":
                s = payload
                rv = s.rv
                sl.stmts.append((b, s))
                if rv.k in ("use", "cast", "repeat"):
                    push_op(rv.ops[0])
                elif rv.k in ("ref", "rawptr", "discr"):
                    if rv.k == "discr" and mode == "prov":
                        push_place(rv.place)
                    else:
                        push_place(rv.place)
                elif rv.k == "bin":
                    sl.binops.append((b, s))
                    if mode == "dep":
                        push_op(rv.ops[0])
                        push_op(rv.ops[1])
                elif rv.k == "un":
                    sl.binops.append((b, s))
                    if mode == "dep" or rv.op == "Not":
                        push_op(rv.ops[0])
                elif rv.k == "agg":
                    sl.aggs.append((b, s))
                    if mode == "dep":
                        for o in rv.ops:
                            push_op(o)
            elif kind == "call":
                t = payload
                sl.calls.append((b, t))
                if opaque_rx is not None and t.callee and opaque_rx.search(t.callee):
                    continue  # a root: recorded, but its arguments are not part of the value
                if mode == "dep" or is_transparent(t.callee, through_clone, extra):
                    for a in t.args:
                        push_op(a)
            elif kind == "yield":
                sl.calls.append((b, payload))
                if mode == "dep":
                    push_op(Operand(payload.j["v"]))
        if mode == "dep":
            # mutation through a borrow handed to a call: L depends on the other arguments of that call
            muts, stack_r, seen_r = [], [l], set()
            while stack_r:
                x = stack_r.pop()
                for (tl, m, b) in refuses.get(x, []):
                    if m != "mut" or tl in seen_r:
                        continue
                    seen_r.add(tl)
                    muts.append((tl, m, b))
                    stack_r.append(tl)   # reborrows: `_b = &mut (*_a)`
            for (tl, m, b) in muts:
                for (cb, ai, t) in arguses.get(tl, []):
                    if fn.blocks[cb].cleanup:
                        continue
                    if opaque_rx is not None and t.callee and opaque_rx.search(t.callee):
                        continue
                    sl.calls.append((cb, t))
                    for j, a in enumerate(t.args):
                        if j != ai:
                            push_op(a)
    return sl


def closure_upvar_operands(parent_fn, closure_id):
    """In `parent_fn`, find the aggregate that builds closure `closure_id`: returns {upvar name: Operand}, block"""
    for b in parent_fn.blocks:
        for s in b.stmts:
            if s.k == "assign" and s.rv.k == "agg" and s.rv.j.get("def") == closure_id:
                return dict(s.rv.agg_fields()), b.idx, s
    return None, None, None


def upvar_sources(F, fn):
    """for a closure / coroutine body: {upvar name: (parent Fn, Operand captured)} from the aggregate that builds it in its parent"""
    tab = F.P if fn.form == "P" else F.E
    par = tab.get(fn.parent)
    if par is None:
        return {}
    ups, _, _ = closure_upvar_operands(par, fn.id)
    return {n: (par, o) for n, o in (ups or {}).items()}


def upvars_from_param(F, fn, param):
    """names of the upvars of `fn` that capture parameter `param` of its parent"""
    return {n for n, (par, o) in upvar_sources(F, fn).items() if o.place is not None and param in backslice(par, o, "prov").args}


def find_switches(fn, pred=None):
    return [b for b in fn.blocks if b.term.k == "switch" and not b.cleanup and (pred is None or pred(b))]


def switch_on_call_result(fn, call_block):
    """the switch (if any) that tests the bool / discriminant produced by the call terminating `call_block`.
    returns list of switch blocks whose discriminant slices (prov) back to that call"""
    out = []
    t = fn.blocks[call_block].term
    for sw in find_switches(fn):
        sl = backslice(fn, sw.term.discr, "prov")
        if any(b == call_block for b, _ in sl.calls):
            out.append(sw)
    return out
