"""A4: lock regions, effects under locks, lock order (whole program over the analysed crates).

Per body: a forward may-analysis of which lock guards are live at each point (gen: a guard-typed local is
assigned / returned by a call / is a guard-typed parameter; transfer on move; kill on drop or when moved into a call —
for the duration of that call it still counts as held).  Across bodies: a call graph (direct callees by canonical
id, trait calls expanded to every impl in the analysed crates, closures handed to a call are assumed to be run by
it, the boxed acquire/release operators of the eviction algorithms are resolved through the `Eviction::acquire/release`
registry) propagates "may run while class C is held".  Non-coroutine bodies are analysed in E-form (exact,
elaborated drops); coroutine bodies in P-form (source-shaped, with a maybe-initialised filter for scope-end drops).
"""
import re
from collections import defaultdict

from .mir import backslice, closure_upvar_operands, short_path
from . import flow

GUARD_RX = re.compile(
    r"^(parking_lot::)?lock_api::((mutex|rwlock|remutex)::)?(MutexGuard|RwLockReadGuard|RwLockWriteGuard|RwLockUpgradableReadGuard|MappedMutexGuard|"
    r"MappedRwLockReadGuard|MappedRwLockWriteGuard|ArcMutexGuard|ArcRwLockReadGuard|ArcRwLockWriteGuard)<"
    r"|^std::sync::(MutexGuard|RwLockReadGuard|RwLockWriteGuard)<|^std::sync::poison::(mutex::MutexGuard|rwlock::RwLockReadGuard|rwlock::RwLockWriteGuard)<"
    r"|^mea::mutex::(MutexGuard|OwnedMutexGuard)<|^mea::rwlock::")


def split_generics(s):
    """top-level generic arguments of `Path<a, b<c>, d>`"""
    i = s.find("<")
    if i < 0 or not s.endswith(">"):
        return []
    inner = s[i + 1:-1]
    out, depth, cur = [], 0, ""
    for ch in inner:
        if ch in "<([":
            depth += 1
        elif ch in ">)]":
            depth -= 1
        if ch == "," and depth == 0:
            out.append(cur.strip())
            cur = ""
        else:
            cur += ch
    if cur.strip():
        out.append(cur.strip())
    return out


def guard_info(ty):
    """(kind, class) for an owned guard type string, else None.  kind: 'read'|'write'|'mutex'|'async-mutex'"""
    if not GUARD_RX.search(ty):
        return None
    g = split_generics(ty)
    prot = g[-1] if g else "?"
    cls = prot.split("<")[0]
    if "hashbrown::HashTable" in prot or "HashMap" in prot or "Vec<" == prot[:4]:
        cls = prot  # keep element type to tell tables apart
    head = ty.split("<")[0]
    if head.startswith("mea::"):
        kind = "async-mutex"
    elif "RwLockReadGuard" in head or "UpgradableRead" in head:
        kind = "read"
    elif "RwLockWriteGuard" in head:
        kind = "write"
    else:
        kind = "mutex"
    return kind, cls


class Site:
    __slots__ = ("fn", "block", "ln", "held", "kind", "term", "detail")

    def __init__(self, fn, block, ln, held, kind, term, detail=None):
        self.fn, self.block, self.ln, self.held, self.kind, self.term, self.detail = fn, block, ln, held, kind, term, detail


class BodyLocks:
    """intra-procedural result for one body"""

    def __init__(self, fn):
        self.fn = fn
        self.guards = {}          # local -> (kind, class)
        for l in range(fn.nlocals):
            gi = guard_info(fn.local_ty(l))
            if gi:
                self.guards[l] = gi
        self.calls = []           # (block, Term, frozenset(held guard locals))   every non-cleanup call
        self.drops = []           # (block, Term, held)                            every non-cleanup drop
        self.yields = []          # (block, Term, held)
        self.acquires = []        # (block, Term, held-before, (kind, class))
        self.entry_guards = set()
        self.must_at = {}         # block -> frozenset(guard locals certainly live at the block's terminator)
        self._run(must=False)
        self._run(must=True)

    def cls(self, l):
        return self.guards[l]

    def _run(self, must=False):
        fn = self.fn
        G = self.guards
        nb = len(fn.blocks)
        entry = set(l for l in G if 1 <= l <= fn.argc)
        self.entry_guards = set(entry)
        # closure upvars holding guards are not modelled (none on the pinned tree)
        IN = [None] * nb
        IN[0] = frozenset(entry)
        work = [0]
        OUT_cache = {}
        while work:
            b = work.pop()
            st = set(IN[b])
            blk = fn.blocks[b]
            for s in blk.stmts:
                if s.k != "assign":
                    continue
                rv = s.rv
                moved = [o.place.local for o in rv.ops if o.place is not None and o.kind == "move" and o.place.is_local() and o.place.local in st]
                for m in moved:
                    st.discard(m)
                    if s.place.is_local() and s.place.local in G:
                        st.add(s.place.local)
                    elif moved:
                        # moved into a non-guard-typed place (aggregate / field): keep tracking through the base local if its
                        # type mentions a guard
                        if any(GUARD_RX.search(x) for x in [fn.local_ty(s.place.local)]) or "Guard<" in fn.local_ty(s.place.local):
                            st.add(s.place.local)
                            if s.place.local not in G:
                                G[s.place.local] = G[m]
            t = blk.term
            succ_state = set(st)
            if t.k == "call":
                moved = [a.place.local for a in t.args if a.place is not None and a.kind == "move" and a.place.is_local() and a.place.local in st]
                held = frozenset(st)
                if must:
                    self.must_at[b] = held
                elif not blk.cleanup:
                    self.calls.append((b, t, held))
                for m in moved:
                    succ_state.discard(m)
                if t.dest.is_local() and t.dest.local in G:
                    if not blk.cleanup and not must:
                        self.acquires.append((b, t, held, G[t.dest.local]))
                    succ_state.add(t.dest.local)
            elif t.k == "drop":
                held = frozenset(st)
                if must:
                    self.must_at[b] = held
                elif not blk.cleanup:
                    self.drops.append((b, t, held))
                if t.place.is_local():
                    succ_state.discard(t.place.local)
            elif t.k == "yield":
                if not blk.cleanup and not must:
                    self.yields.append((b, t, frozenset(st)))
            out = frozenset(succ_state)
            for s2 in t.succs(cleanup=False):
                new = out if IN[s2] is None else ((IN[s2] & out) if must else (IN[s2] | out))
                if IN[s2] is None or new != IN[s2]:
                    IN[s2] = new
                    work.append(s2)
        if not must:
            self.IN = IN


EFFECTS = [
    ("E1", "event listener", re.compile(r"^foyer_(common|fixture)::event::EventListener::on_leave$")),
    ("E3", "storage filter", re.compile(r"^foyer_storage::filter::(StorageFilterCondition|StorageFilter)::filter$|^foyer_storage::(StorageFilterCondition|StorageFilter)::filter$")),
    ("E4", "pipe / disk hand-off", re.compile(r"^foyer_memory::(pipe::)?Pipe::(send|flush)$|^foyer_storage::(store::)?Store::<K, V, S, P>::enqueue$")),
]
DROPLIKE = re.compile(r"^(std|core)::mem::drop$|^std::vec::Vec::<T, A>::(clear|truncate|retain|retain_mut|dedup\w*)$|"
                      r"^std::collections::(VecDeque|vec_deque::VecDeque)::<T, A>::(clear|truncate|retain|retain_mut)$|"
                      r"^std::collections::(HashMap|hash_map::HashMap|HashSet|BTreeMap)::<.*>::(clear|retain)$|^hashbrown::.*::(clear|retain)$")
USER_TYPE_TEXT = re.compile(r"foyer_memory::record::Record<|foyer_memory::(pipe::)?Piece<|RawCacheEntry<|CacheEntry<|Eviction>::(Key|Value)\b|(?<![\w:])(K|V)(?![\w:])")
FN_CALL = re.compile(r"^(std|core)::ops::(Fn|FnMut|FnOnce)::call(_mut|_once)?$")
USER_PARAM = re.compile(r"^(K|V|P|Q|T)$|as foyer_memory::eviction::Eviction>::(Key|Value|Properties)$|as foyer_memory::Eviction>::(Key|Value|Properties)$"
                        r"|as foyer_memory::indexer::Indexer>::Eviction as .*>::(Key|Value|Properties)$|::Owned$")
USER_OPAQUE = re.compile(r"dyn .*FnOnce|dyn .*Fn\(|dyn .*FnMut|dyn std::any::Any|dyn .*Future")
# classes whose guards the property is about (foyer-memory / foyer-storage internals)
CLASS_OK = re.compile(r"^foyer_(memory|storage)::|hashbrown::HashTable<foyer|HashMap<u64, foyer_storage")


class LockAnalysis:
    def __init__(self, F):
        self.F = F
        self.bodies = {}     # fn.id -> BodyLocks
        self.fns = {}        # fn.id -> Fn (the form analysed)
        for fid, pf in F.P.items():
            if pf.kind in ("coroutine", "coroutine_body") or fid not in F.E:
                f = pf
            else:
                f = F.E[fid]
            self.fns[fid] = f
        self._impl_index()
        self._closure_cache = {}
        self.must_edges = defaultdict(list)
        self.edges = defaultdict(list)   # caller id -> list of (callee id, frozenset(classes held at site), ln, via)
        self.unresolved = []
        self.ctx = defaultdict(set)      # fn id -> classes that may be held on entry: (kind, class)
        self.why = {}                    # (fn id, class) -> (caller id, ln)
        for fid, f in self.fns.items():
            self.bodies[fid] = BodyLocks(f)
        self._build_edges()
        self._propagate()

    # -- call resolution ------------------------------------------------------------------------------------
    def _impl_index(self):
        self.trait_impls = defaultdict(list)   # (trait path, method name) -> [fn ids]
        for fid, f in self.fns.items():
            if f.kind in ("fn", "assoc_fn") and f.impl_trait:
                name = fid.rsplit("::", 1)[-1]
                self.trait_impls[(f.impl_trait, name)].append(fid)
        self.by_cid = {f.cid: fid for fid, f in self.fns.items() if f.cid}
        # default methods of local traits
        self.trait_defaults = {}
        for fid, f in self.fns.items():
            if f.in_trait and f.kind in ("fn", "assoc_fn"):
                self.trait_defaults[(f.in_trait, fid.rsplit("::", 1)[-1])] = fid
        # registry: the boxed operators returned by Eviction::acquire / release
        self.op_closures = defaultdict(list)
        for fid, f in self.fns.items():
            if f.kind == "closure" and f.parent in self.fns:
                p = self.fns[f.parent]
                if p.impl_trait and p.impl_trait.endswith("eviction::Eviction") and p.id.rsplit("::", 1)[-1] in ("acquire", "release"):
                    # which Op constructor is the closure handed to?
                    ctor = "?"
                    for b in p.blocks:
                        t = b.term
                        if t.k == "call" and t.callee and re.search(r"eviction::Op::<E>::(mutable|immutable)$", t.callee):
                            if any(flow._closure_def_of(p, a, self.F.P if p.form == "P" else self.F.E) == fid for a in t.args):
                                ctor = t.callee.rsplit("::", 1)[-1]
                    self.op_closures[p.id.rsplit("::", 1)[-1]].append((fid, ctor))

    def _closure_of(self, fn, operand):
        tab = self.F.P if fn.form == "P" else self.F.E
        return flow._closure_def_of(fn, operand, tab)

    def callees(self, fn, t):
        """list of (callee fn id, via) for a call terminator"""
        out = []
        callee = t.callee
        if callee is None:
            return out
        cid = t.callee_cid
        if cid in self.by_cid:
            out.append((self.by_cid[cid], "direct"))
        tr = t.trait
        if tr:
            name = callee.rsplit("::", 1)[-1]
            gens = fn.callee_generics(t)
            self_ty = gens[0] if gens else None
            self_head = None
            if self_ty:
                st = self_ty.lstrip("&").replace("mut ", "").strip()
                if "::" in st.split("<")[0] and not st.startswith("<") and not st.startswith("dyn "):
                    self_head = st.split("<")[0]
            # normalise re-exported trait paths by suffix match on the last segment
            for (tp, nm), ids in self.trait_impls.items():
                if nm == name and (tp == tr or tp.split("::")[-1] == tr.split("::")[-1]):
                    for i in ids:
                        if self_head is not None:
                            ih = (self.fns[i].self_ty or "").split("<")[0]
                            if ih.split("::")[-1] != self_head.split("::")[-1]:
                                continue
                        out.append((i, "impl of " + tr))
            for (tp, nm), i in self.trait_defaults.items():
                if nm == name and tp.split("::")[-1] == tr.split("::")[-1] and (i, "direct") not in out:
                    out.append((i, "default method of " + tr))
        if FN_CALL.search(callee) and t.args:
            cdef = self._closure_of(fn, t.args[0])
            if cdef and cdef in self.fns:
                out.append((cdef, "closure call"))
            else:
                sl = backslice(fn, t.args[0], "prov")
                for which in ("acquire", "release"):
                    if sl.has_call(r"Eviction::%s$" % which):
                        # the payload was taken out of Op::Immutable(..) or Op::Mutable(..): only the matching operators can be meant
                        want = None
                        for of, n in sl.fields:
                            if of.endswith("eviction::Op::Immutable"):
                                want = "immutable"
                            elif of.endswith("eviction::Op::Mutable"):
                                want = "mutable"
                        for (c, ctor) in self.op_closures[which]:
                            if want is None or ctor == want:
                                out.append((c, "Eviction::%s operator (%s)" % (which, ctor)))
        # closures (and fn items) handed to a call are assumed to be run by it — unless the callee is an analysed body that
        # provably only stores its parameter (e.g. `Op::mutable(f)` boxes f): then the parameter must reach an Fn*::call there
        local_callee = self.fns.get(self.by_cid.get(cid)) if cid in self.by_cid else None
        for ai, a in enumerate(t.args):
            if a.place is not None:
                ty = fn.local_ty(a.place.local) if a.place.is_local() else ""
                if "{closure@" in ty or "{async block@" in ty or "{async closure@" in ty or "{coroutine@" in ty:
                    cdef = self._closure_of(fn, a)
                    if cdef and cdef in self.fns and not (FN_CALL.search(callee) and a is t.args[0]):
                        if local_callee is not None and not self._param_is_called(local_callee, ai + 1):
                            continue
                        out.append((cdef, "closure argument of " + short_path(callee)))
            elif a.const is not None and a.const.get("cid") in self.by_cid:
                out.append((self.by_cid[a.const["cid"]], "fn item argument"))
        return out

    def _param_is_called(self, g, param):
        key = (g.id, param)
        if key in self._closure_cache:
            return self._closure_cache[key]
        res = False
        tab = self.F.P if g.form == "P" else self.F.E
        bodies = [g] + [c for c in tab.values() if c.root == g.id and c is not g]
        for body in bodies:
            for b in body.blocks:
                t = b.term
                if t.k == "call" and t.callee and t.args:
                    if FN_CALL.search(t.callee):
                        sl = backslice(body, t.args[0], "prov")
                        if body is g and param in sl.args:
                            res = True
                        if body is not g and sl.upvars:
                            res = True   # captured and called inside a nested closure: assume it is our parameter
                    elif body is g:
                        # forwarded to another call by value: be conservative (assume it may be run)
                        for a in t.args:
                            if a.place is not None and a.place.is_local() and a.place.local == param and not re.search(r"Box::<T>::new$|Arc::<T>::new$", t.callee):
                                res = True
        self._closure_cache[key] = res
        return res

    def _build_edges(self):
        for fid, bl in self.bodies.items():
            fn = bl.fn
            for (b, t, held) in bl.calls:
                classes = frozenset(bl.cls(l) for l in held)
                mclasses = frozenset(bl.cls(l) for l in bl.must_at.get(b, ()))
                for (cid, via) in self.callees(fn, t):
                    self.edges[fid].append((cid, classes, t.ln, via))
                    self.must_edges[fid].append((cid, mclasses, via))

    def _propagate(self):
        work = list(self.fns)
        # seed: nothing held at public entry points; contexts only grow through edges
        changed = True
        while changed:
            changed = False
            for fid in self.fns:
                base = self.ctx[fid]
                for (cid, classes, ln, via) in self.edges.get(fid, []):
                    add = (base | classes) - self.ctx[cid]
                    # a coroutine body handed to a call (spawn / Box::pin) does not run inside the caller's critical section
                    if self.fns[cid].kind in ("coroutine", "coroutine_body") and via.startswith("closure argument"):
                        continue
                    if add:
                        for c in add:
                            self.why[(cid, c)] = (fid, ln, via)
                        self.ctx[cid] |= add
                        changed = True

    def must_ctx(self):
        """fn id -> set of (kind, class) that are held on EVERY call path into the function (greatest fixpoint; functions
        without callers in the analysed crates — public entry points — hold nothing)"""
        if hasattr(self, "_must"):
            return self._must
        incoming = defaultdict(list)
        for caller, es in self.must_edges.items():
            for (cid, classes, via) in es:
                if self.fns[cid].kind in ("coroutine", "coroutine_body") and via.startswith("closure argument"):
                    continue
                incoming[cid].append((caller, classes))
        ALL = None
        must = {fid: (ALL if incoming.get(fid) else frozenset()) for fid in self.fns}
        changed = True
        while changed:
            changed = False
            for fid in self.fns:
                inc = incoming.get(fid)
                if not inc:
                    continue
                acc = ALL
                for (caller, classes) in inc:
                    mc = must[caller]
                    cl2 = frozenset(classes) | frozenset(("any", c) for (k, c) in classes)
                    here = None if mc is ALL else (cl2 | mc)
                    if here is None:
                        continue
                    acc = here if acc is ALL else (acc & here)
                if acc is not ALL and acc != must[fid]:
                    must[fid] = acc
                    changed = True
        self._must = {k: (v if v is not None else frozenset()) for k, v in must.items()}
        return self._must

    def must_held_at(self, fid, block):
        """classes certainly held when the terminator of `block` in body fid executes (local must-analysis is approximated by
        the may-set of the body when it has a single guard live there, plus the must-context of the body)"""
        bl = self.bodies[fid]
        local = None
        if block in bl.must_at:
            local = frozenset(bl.cls(l) for l in bl.must_at[block])
            local = local | frozenset(("any", c) for (k, c) in local)
        return (local or frozenset()) | self.must_ctx()[fid]

    # -- queries ------------------------------------------------------------------------------------------
    def held_at(self, fid, held_locals):
        bl = self.bodies[fid]
        return frozenset(bl.cls(l) for l in held_locals) | frozenset(self.ctx[fid])

    def chain(self, fid, cls, limit=8):
        """how class `cls` comes to be held on entry of fid: list of 'caller:line (via)'"""
        out = []
        cur = fid
        while (cur, cls) in self.why and len(out) < limit:
            caller, ln, via = self.why[(cur, cls)]
            out.append("%s:%s (%s)" % (short_path(caller), ln, via))
            if cls in {self.bodies[caller].cls(l) for l in self.bodies[caller].guards}:
                break
            cur = caller
        return out

    def effect_sites(self):
        """calls of user callbacks (E1-E4) with the classes held"""
        out = []
        for fid, bl in self.bodies.items():
            fn = bl.fn
            for (b, t, held) in bl.calls:
                callee = t.callee
                if callee is None:
                    continue
                hs = self.held_at(fid, held)
                kind = None
                for (eid, what, rx) in EFFECTS:
                    if rx.search(callee):
                        kind = (eid, what)
                if kind is None and FN_CALL.search(callee) and t.args:
                    sl = backslice(fn, t.args[0], "prov")
                    if sl.has_field("weighter") or sl.has_field("filter"):
                        kind = ("E2", "weighter / filter")
                if kind:
                    out.append(Site(fn, b, t.ln, hs, kind[0], t, kind[1]))
        return out

    def drop_sites(self):
        """drops (E-form exact; P-form scope-end for coroutines) with the classes held and the glue summary"""
        out = []
        for fid, bl in self.bodies.items():
            fn = bl.fn
            for (b, t, held) in bl.drops:
                hs = self.held_at(fid, held)
                out.append(Site(fn, b, t.ln, hs, "drop", t, fn.glue(t)))
        return out

    def droplike_sites(self):
        """calls under a lock that destroy values handed to them: mem::drop(v) and clearing / truncating container methods"""
        out = []
        for fid, bl in self.bodies.items():
            fn = bl.fn
            for (b, t, held) in bl.calls:
                callee = t.callee
                if callee is None or not DROPLIKE.search(callee) or not t.args:
                    continue
                a = t.args[0]
                if a.place is None:
                    continue
                ty = fn.local_ty(a.place.local) if a.place.is_local() else fn.local_ty(a.place.local)
                # follow a `&mut x` temporary to x for the container methods
                sl = backslice(fn, a, "prov")
                tys = {fn.local_ty(l) for l in sl.locals} | {ty}
                hs = self.held_at(fid, held)
                out.append(Site(fn, b, t.ln, hs, "droplike", t, sorted(tys, key=len, reverse=True)))
        return out

    def acquire_sites(self):
        out = []
        for fid, bl in self.bodies.items():
            for (b, t, held, gc) in bl.acquires:
                hs = self.held_at(fid, held)
                out.append(Site(bl.fn, b, t.ln, hs, "acquire", t, gc))
        return out

    def yield_sites(self):
        out = []
        for fid, bl in self.bodies.items():
            for (b, t, held) in bl.yields:
                hs = frozenset(bl.cls(l) for l in held)
                out.append(Site(bl.fn, b, t.ln, hs, "yield", t))
        return out


def user_drop(glue):
    """why dropping a value with this glue summary can run user code (a key / value / properties destructor or an
    opaque user closure), or None"""
    ps = [p for p in glue["params"] if USER_PARAM.search(p)]
    if ps:
        return "owns user data of type %s" % ", ".join(sorted(set(ps))[:3])
    os_ = [o for o in glue["opaque"] if USER_OPAQUE.search(o)]
    if os_:
        return "owns an opaque user object (%s)" % os_[0][:80]
    return None


_CACHE = {}


def analysis(F):
    k = id(F)
    if k not in _CACHE:
        _CACHE.clear()
        _CACHE[k] = LockAnalysis(F)
    return _CACHE[k]
