"""helpers for the desugared `.await` / `?` shapes in coroutine MIR (P-form)"""
import re
from . import flow
from .mir import backslice


def awaited_try(F, fn, call_block):
    """For the call ending `call_block` whose result is a future that is awaited and then `?`-propagated:
    returns list of (try_branch_block, continue_target, break_target).  Empty if the result is not propagated."""
    t = fn.blocks[call_block].term
    out = []

    def sink(f, s, idx, kind):
        if kind == "call" and s.callee and re.search(r"ops::Try::branch$", s.callee) and idx == 0:
            return "try"
        return None

    fl = flow.forward(F, fn, [t.dest.local], sink=sink)
    from . import tables
    for (f, b, d, term) in fl.sinks:
        if f is not fn:
            continue
        for (sb, pl, tm, other) in tables.variant_switch_on(fn, b):
            out.append((b, tm.get("Continue"), tm.get("Break"), sb.idx))
    return out


def yields_between(fn, a, b):
    """is there a path a -> b crossing a yield"""
    ys = [blk.idx for blk in fn.blocks if blk.term.k == "yield"]
    r = fn.reachable([a])
    return [y for y in ys if y in r and b in fn.reachable([y])]
