"""Thorough tier: prove the rules armed.  Each canned patch in mutants/ breaks ONE rule instance; it is applied to a
scratch worktree of the current /repo HEAD+working tree (outside /repo and /verif), re-analysed, and the expected
rule must report a violation.  The property verdict never depends on these runs."""
import glob, json, os, shutil, subprocess, sys, tempfile
from concurrent.futures import ThreadPoolExecutor

VERIF = os.path.dirname(os.path.dirname(os.path.abspath(__file__)))
REPO = os.environ.get("VERIF_REPO", "/repo")


def list_mutants(prop=None):
    out = []
    for d in sorted(glob.glob(os.path.join(VERIF, "mutants", "*.diff"))):
        name = os.path.basename(d)[:-5]
        exp = open(d[:-5] + ".expect").read().split()
        props = exp[0].split(",")
        if prop is None or prop in props or name.startswith(prop):
            for p in props:
                if prop is None or prop == p or name.startswith(prop):
                    out.append((name if len(props) == 1 else "%s@%s" % (name, p), d, p, exp[1]))
    return out


def run_one(name, diff, prop, rule, keep_output=False):
    scr = tempfile.mkdtemp(prefix="verif-mut.", dir=os.environ.get("TMPDIR", "/var/tmp"))
    wt = os.path.join(scr, "wt")
    res = {"mutant": name, "expects": rule, "status": "?"}
    try:
        # copy of the CURRENT working tree of /repo (tracked files), so that the check stays meaningful on edited trees
        os.makedirs(wt)
        files = subprocess.check_output(["git", "-C", REPO, "ls-files"], text=True).split("\n")
        for f in files:
            if not f or not os.path.isfile(os.path.join(REPO, f)):
                continue
            dst = os.path.join(wt, f)
            os.makedirs(os.path.dirname(dst), exist_ok=True)
            shutil.copy2(os.path.join(REPO, f), dst)
        p = subprocess.run(["git", "apply", "--unsafe-paths", "--directory=" + wt, diff], cwd=wt, stdout=subprocess.PIPE, stderr=subprocess.STDOUT, text=True) \
            if False else subprocess.run(["patch", "-p1", "-s", "-i", diff], cwd=wt, stdout=subprocess.PIPE, stderr=subprocess.STDOUT, text=True)
        if p.returncode != 0:
            res["status"] = "skipped (patch no longer applies to the current tree)"
            return res
        env = dict(os.environ, VERIF_REPO=wt, VERIF_WORK=os.path.join(scr, "work"), VERIF_EVIDENCE_DIR=os.path.join(scr, "evidence"), VERIF_TIER="quick")
        p = subprocess.run([os.path.join(VERIF, "check"), prop], cwd=VERIF, env=env, stdout=subprocess.PIPE, stderr=subprocess.STDOUT, text=True)
        out = p.stdout
        if "cannot analyse" in out or "does not build" in out:
            res["status"] = "skipped (mutant does not build)"
            return res
        hit = []
        lines = out.split("\n")
        for i, l in enumerate(lines):
            if l.startswith("VIOLATION"):
                detail = " | ".join(x.strip() for x in lines[i + 1:i + 3])
                hit.append(detail)
        if rule == "NONE":
            # behaviour-preserving variant: the checks must stay silent
            res["status"] = "silent (as required)" if not hit else "FALSE-ALARM"
            if hit:
                res["report"] = hit[0][:300]
        elif any(("rule " + rule + ":") in h for h in hit):
            res["status"] = "detected"
            res["report"] = [h for h in hit if ("rule " + rule + ":") in h][0][:300]
        elif hit:
            res["status"] = "detected-by-other-rule"
            res["report"] = hit[0][:300]
        else:
            res["status"] = "MISSED"
        if keep_output:
            res["output"] = out[-3000:]
        return res
    finally:
        shutil.rmtree(scr, ignore_errors=True)


def run_all(prop=None, jobs=4):
    ms = list_mutants(prop)
    with ThreadPoolExecutor(max_workers=jobs) as ex:
        return list(ex.map(lambda m: run_one(*m), ms))


if __name__ == "__main__":
    prop = sys.argv[1] if len(sys.argv) > 1 and sys.argv[1] != "all" else None
    jobs = int(sys.argv[2]) if len(sys.argv) > 2 else 4
    bad = 0
    for r in run_all(prop, jobs):
        print("%-42s %-28s %s" % (r["mutant"], r["expects"], r["status"]))
        if r["status"] in ("MISSED", "FALSE-ALARM"):
            bad += 1
    sys.exit(1 if bad else 0)
