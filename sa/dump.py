"""Engine A runner: (re)build the MIR fact dump of /repo's *current working tree*.

The dump is cached on a content hash of every file that can influence the analysed crates
(all *.rs / Cargo.toml / Cargo.lock / .cargo config under /repo, excluding target/), the driver binary and the
feature configuration.  A stale or missing cache re-runs `cargo +nightly check` with the driver injected as
RUSTC_WORKSPACE_WRAPPER after deleting the member crates' fingerprints (cargo would otherwise replay a cached
result without running the driver).  Fails closed: a missing fact file is an error.
"""
import hashlib, json, os, shutil, subprocess, sys, time, glob, fcntl

VERIF = os.path.dirname(os.path.dirname(os.path.abspath(__file__)))
REPO = os.environ.get("VERIF_REPO", "/repo")
WORK = os.environ.get("VERIF_WORK") or os.path.join(VERIF, ".work")
TARGET_BASE = os.environ.get("VERIF_TARGET_BASE") or os.path.join(VERIF, ".work")
DRIVER = os.path.join(VERIF, ".work", "driver-target", "debug", "mirfacts")
CRATES = ["foyer_common", "foyer_memory", "foyer_storage", "foyer"]
PKGS = ["foyer-common", "foyer-memory", "foyer-storage", "foyer", "foyer-tokio"]

# configuration name -> cargo feature flags
CONFIGS = {
    "default": [],
    "serde": ["--features", "foyer/serde,foyer-common/serde,foyer-storage/serde"],
    "strict": ["--features", "foyer/strict_assertions,foyer-common/strict_assertions,foyer-memory/strict_assertions,foyer-storage/strict_assertions,"
                             "foyer/test_utils,foyer-storage/test_utils,foyer-memory/test_utils"],
    "tracing": ["--features", "foyer/tracing,foyer-common/tracing,foyer-memory/tracing,foyer-storage/tracing"],
}


def sysroot():
    return subprocess.check_output(["rustc", "+nightly", "--print", "sysroot"], text=True).strip()


def repo_hash(repo=REPO):
    h = hashlib.sha256()
    files = []
    for root, dirs, fs in os.walk(repo):
        dirs[:] = [d for d in dirs if d not in ("target", ".git", "node_modules", "website")]
        for f in fs:
            if f.endswith(".rs") or f in ("Cargo.toml", "Cargo.lock", "config.toml", "rust-toolchain.toml", "rust-toolchain"):
                files.append(os.path.join(root, f))
    files.sort()
    for f in files:
        h.update(os.path.relpath(f, repo).encode())
        h.update(b"\0")
        with open(f, "rb") as fh:
            h.update(fh.read())
        h.update(b"\0")
    try:
        with open(DRIVER, "rb") as fh:
            h.update(hashlib.sha256(fh.read()).digest())
    except FileNotFoundError:
        h.update(b"nodriver")
    return h.hexdigest()


def build_driver():
    if os.path.exists(DRIVER) and os.path.getmtime(DRIVER) >= max(
        os.path.getmtime(os.path.join(VERIF, "driver", "src", "main.rs")),
        os.path.getmtime(os.path.join(VERIF, "driver", "Cargo.toml")),
    ):
        return
    env = dict(os.environ, CARGO_NET_OFFLINE="true")
    r = subprocess.run(["cargo", "+nightly", "build", "--offline"], cwd=os.path.join(VERIF, "driver"), env=env,
                       stdout=subprocess.PIPE, stderr=subprocess.STDOUT, text=True)
    if r.returncode != 0 or not os.path.exists(DRIVER):
        sys.stderr.write(r.stdout)
        raise SystemExit("dump: cannot build the mirfacts driver")


def facts_dir(config="default", repo=REPO, work=WORK):
    return os.path.join(work, "facts", config)


def ensure(config="default", repo=REPO, work=WORK, quiet=False):
    """Return the directory holding up-to-date fact files for `config`."""
    os.makedirs(work, exist_ok=True)
    lock = open(os.path.join(work, "dump.%s.lock" % config), "w")
    fcntl.flock(lock, fcntl.LOCK_EX)
    try:
        build_driver()
        out = facts_dir(config, repo, work)
        stamp = os.path.join(out, "STAMP")
        want = repo_hash(repo) + ":" + config + ":" + " ".join(CONFIGS[config])
        if os.path.exists(stamp) and open(stamp).read().strip() == want and all(
                glob.glob(os.path.join(out, c + ".*.json")) for c in CRATES):
            return out
        shutil.rmtree(out, ignore_errors=True)
        os.makedirs(out)
        target = os.path.join(TARGET_BASE, "target-" + config if config != "default" else "target")
        env = dict(os.environ)
        env.update({
            "LD_LIBRARY_PATH": sysroot() + "/lib",
            "RUSTFLAGS": "--cfg tokio_unstable -Zmir-opt-level=0 -Awarnings",
            "RUSTC_WORKSPACE_WRAPPER": DRIVER,
            "MIRFACTS_OUT": out,
            "MIRFACTS_TAG": config,
            "CARGO_TARGET_DIR": target,
            "CARGO_NET_OFFLINE": "true",
        })
        env.pop("RUSTC_WRAPPER", None)
        cmd = ["cargo", "+nightly", "check", "--offline"]
        for p in PKGS:
            cmd += ["-p", p]
        cmd += CONFIGS[config]
        t = time.time()
        # the target directory is shared between /repo and scratch copies (dependencies are built once): one cargo run at a time
        os.makedirs(TARGET_BASE, exist_ok=True)
        glock = open(os.path.join(TARGET_BASE, "cargo.%s.lock" % config), "w")
        fcntl.flock(glock, fcntl.LOCK_EX)
        try:
            for fp in glob.glob(os.path.join(target, "debug", ".fingerprint", "foyer*")):
                base = os.path.basename(fp)
                if not base.startswith(("foyer-intrusive", "foyer-bytesize")):
                    shutil.rmtree(fp, ignore_errors=True)
            r = subprocess.run(cmd, cwd=repo, env=env, stdout=subprocess.PIPE, stderr=subprocess.STDOUT, text=True)
        finally:
            fcntl.flock(glock, fcntl.LOCK_UN)
            glock.close()
        if r.returncode != 0:
            sys.stderr.write(r.stdout[-6000:])
            raise SystemExit("dump: `cargo check` of %s failed (config %s) — the tree does not build" % (repo, config))
        missing = [c for c in CRATES if len(glob.glob(os.path.join(out, c + ".*.json"))) != 1]
        if missing:
            sys.stderr.write(r.stdout[-3000:])
            raise SystemExit("dump: fact file missing or duplicated for %s (config %s)" % (missing, config))
        with open(stamp, "w") as f:
            f.write(want)
        if not quiet:
            sys.stderr.write("dump: config %s re-analysed in %.1fs\n" % (config, time.time() - t))
        return out
    finally:
        fcntl.flock(lock, fcntl.LOCK_UN)
        lock.close()


if __name__ == "__main__":
    for c in (sys.argv[1:] or ["default"]):
        print(ensure(c))
