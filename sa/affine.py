"""Affine normal forms of integer expressions (a classic static value abstraction): value = c0 + sum(ci * root_i).

Only +, -, multiplication and division by constants are interpreted; anything else (a call result, a parameter, a local
with several definitions, a named variable defined by dividing a variable) is an opaque root.  Integer division by a
constant is treated as exact rational division (recorded as an assumption by the rules that use it).

Memory: a read of a field place (e.g. `(*ctx).current_part_blob_offset`) at a program position resolves to the value of
the unique store to the same place that dominates the read with no other store to it in between; if no store dominates,
to the root `<place>@entry`; if stores may reach without dominating, to `<place>@?` (unknown)."""
from fractions import Fraction

ADD = ("Add", "AddWithOverflow", "AddUnchecked")
SUB = ("Sub", "SubWithOverflow", "SubUnchecked")
MUL = ("Mul", "MulWithOverflow", "MulUnchecked")
DIV = ("Div",)


def _const(d):
    return len(d) == 1 and "1" in d


def _place_key(fn, pl):
    base = fn.local_name(pl.local) or "_%d" % pl.local
    return base + "".join("*" if p == "*" else ("." + p["n"] if isinstance(p, dict) and "f" in p else "[]") for p in pl.proj)


def _same_place(a, b):
    return a.local == b.local and [(p if p == "*" else p.get("f", p.get("dc"))) for p in a.proj] == [(p if p == "*" else p.get("f", p.get("dc"))) for p in b.proj]


def stores_to(fn, pl):
    out = []
    for b in fn.blocks:
        if b.cleanup:
            continue
        for i, s in enumerate(b.stmts):
            if s.k == "assign" and s.place.proj and _same_place(s.place, pl):
                out.append((b.idx, i, s))
    return out


def reaching_store(fn, pl, pos):
    """('store', (block, idx, stmt)) | ('entry', None) | ('unknown', None)"""
    sts = stores_to(fn, pl)
    before = [(b, i, s) for (b, i, s) in sts if (b, i) != pos and fn.pos_dominates((b, i), pos) and not (b == pos[0] and i >= pos[1])]
    others = [(b, i, s) for (b, i, s) in sts if (b, i, s) not in before]
    if not before:
        # a non-dominating store that can reach the read makes it unknown
        for (b, i, s) in others:
            if (b, i) != pos and pos[0] in fn.reachable([b]) and not (b == pos[0] and i >= pos[1]):
                return "unknown", None
        return "entry", None
    # the last dominating store: the one dominated by all other dominating stores
    last = None
    for c in before:
        if all(fn.pos_dominates((o[0], o[1]), (c[0], c[1])) for o in before):
            last = c
    if last is None:
        return "unknown", None
    # no other store strictly between last and pos on some path
    for (b, i, s) in others:
        if (b, i) == pos:
            continue
        if b in fn.reachable([last[0]]) and pos[0] in fn.reachable([b]) and not fn.pos_dominates((b, i), (last[0], last[1])):
            if not (b == pos[0] and i >= pos[1]):
                return "unknown", None
    return "store", last


def affine(fn, op, exact_div=True, opaque_div_vars=True, depth=0, pos=None):
    """dict root -> Fraction, with the key "1" for the constant term."""
    if op.is_const():
        v = op.const_val()
        if v is None:
            return {"const?": Fraction(1)}
        return {"1": Fraction(v)}
    pl = op.place
    if pl is None:
        return {"?": Fraction(1)}
    local = pl.local
    checked_tuple = len(pl.proj) == 1 and isinstance(pl.proj[0], dict) and pl.proj[0].get("f") == 0 and fn.local_ty(local).startswith("(")
    if pl.proj and not checked_tuple:
        if pos is not None:
            kind, st = reaching_store(fn, pl, pos)
            if kind == "store":
                rv = st[2].rv
                if rv.k in ("use", "cast") and depth < 40:
                    return affine(fn, rv.ops[0], exact_div, opaque_div_vars, depth + 1, (st[0], st[1]))
                return {_place_key(fn, pl) + "@store:%d" % st[2].ln: Fraction(1)}
            return {_place_key(fn, pl) + ("@entry" if kind == "entry" else "@?"): Fraction(1)}
        return {_place_key(fn, pl): Fraction(1)}
    if depth > 40:
        return {"_%d" % local: Fraction(1)}
    if 1 <= local <= fn.argc:
        return {fn.local_name(local) or "_%d" % local: Fraction(1)}
    ds = [d for d in fn.defs().get(local, []) if not fn.blocks[d[0]].cleanup]
    if len(ds) != 1 or ds[0][2] != "assign":
        return {fn.local_name(local) or "_%d" % local: Fraction(1)}
    dpos = (ds[0][0], ds[0][1])
    rv = ds[0][3].rv
    if rv.k in ("use", "cast"):
        return affine(fn, rv.ops[0], exact_div, opaque_div_vars, depth + 1, dpos if pos is not None else None)
    if rv.k == "bin":
        p2 = dpos if pos is not None else None
        a = affine(fn, rv.ops[0], exact_div, opaque_div_vars, depth + 1, p2)
        b = affine(fn, rv.ops[1], exact_div, opaque_div_vars, depth + 1, p2)
        opn = rv.op
        if opn in ADD or opn in SUB:
            sgn = 1 if opn in ADD else -1
            out = dict(a)
            for k, v in b.items():
                out[k] = out.get(k, Fraction(0)) + sgn * v
            return {k: v for k, v in out.items() if v != 0} or {"1": Fraction(0)}
        if opn in MUL:
            if _const(a):
                return {k: v * a["1"] for k, v in b.items()}
            if _const(b):
                return {k: v * b["1"] for k, v in a.items()}
        if opn in DIV and _const(b) and b["1"] != 0:
            name = fn.local_name(local)
            if opaque_div_vars and name and not _const(a) and pl.is_local() and depth > 0:
                return {name: Fraction(1)}
            if exact_div:
                return {k: v / b["1"] for k, v in a.items()}
    return {fn.local_name(local) or "_%d" % local: Fraction(1)}


def store_form(fn, store):
    """affine form of the value written by a store (block, idx, stmt), memory-aware"""
    b, i, s = store
    rv = s.rv
    if rv.k in ("use", "cast"):
        return affine(fn, rv.ops[0], pos=(b, i), depth=1)
    return None


def pretty(form):
    if form is None:
        return "?"
    return " + ".join(("%s*%s" % (v, k)) if v != 1 else k for k, v in sorted(form.items()))
