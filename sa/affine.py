"""Affine normal forms of integer expressions (a classic static value abstraction): value = c0 + sum(ci * root_i).

Only +, -, multiplication and division by constants are interpreted; anything else (a call result, a parameter, a local
with several definitions, a value defined by dividing a variable) is an opaque root.  Integer division by a constant is
treated as exact rational division only where the caller says so (`exact_div`), which is recorded as an assumption."""
from fractions import Fraction

ADD = ("Add", "AddWithOverflow", "AddUnchecked")
SUB = ("Sub", "SubWithOverflow", "SubUnchecked")
MUL = ("Mul", "MulWithOverflow", "MulUnchecked")
DIV = ("Div",)


def _const(d):
    return len(d) == 1 and "1" in d


def affine(fn, op, exact_div=True, opaque_div_vars=True, depth=0):
    """dict root -> Fraction, with the key "1" for the constant term.  Roots are strings '_<local>' (or the user name)."""
    if op.is_const():
        v = op.const_val()
        if v is None:
            return {"const?": Fraction(1)}
        return {"1": Fraction(v)}
    pl = op.place
    if pl is None:
        return {"?": Fraction(1)}
    # `_x.0` of a checked-arithmetic tuple -> the tuple's definition
    local = pl.local
    if pl.proj and not (len(pl.proj) == 1 and isinstance(pl.proj[0], dict) and pl.proj[0].get("f") == 0):
        return {repr(pl): Fraction(1)}
    if depth > 40:
        return {"_%d" % local: Fraction(1)}
    if 1 <= local <= fn.argc:
        return {fn.local_name(local) or "_%d" % local: Fraction(1)}
    ds = [d for d in fn.defs().get(local, []) if not fn.blocks[d[0]].cleanup]
    if len(ds) != 1 or ds[0][2] != "assign":
        return {fn.local_name(local) or "_%d" % local: Fraction(1)}
    rv = ds[0][3].rv
    if rv.k in ("use", "cast"):
        return affine(fn, rv.ops[0], exact_div, opaque_div_vars, depth + 1)
    if rv.k == "bin":
        a = affine(fn, rv.ops[0], exact_div, opaque_div_vars, depth + 1)
        b = affine(fn, rv.ops[1], exact_div, opaque_div_vars, depth + 1)
        opn = rv.op
        if opn in ADD or opn in SUB:
            sgn = 1 if opn in ADD else -1
            out = dict(a)
            for k, v in b.items():
                out[k] = out.get(k, Fraction(0)) + sgn * v
            return {k: v for k, v in out.items() if v != 0} or {"1": Fraction(0)}
        if opn in MUL:
            if _const(a):
                return {k: v * a["1"] for k, v in b.items()}
            if _const(b):
                return {k: v * b["1"] for k, v in a.items()}
        if opn in DIV and _const(b) and b["1"] != 0:
            name = fn.local_name(local)
            if opaque_div_vars and name and not _const(a) and pl.is_local() and depth > 0:
                # a named variable defined as floor(x / c): keep it opaque when it is used inside a bigger expression
                return {name: Fraction(1)}
            if exact_div:
                return {k: v / b["1"] for k, v in a.items()}
    return {fn.local_name(local) or "_%d" % local: Fraction(1)}
