"""A10: compile-fail witnesses with compiling twins (rustdoc `compile_fail,E0xxx` on nightly)."""
import os, re, shutil, subprocess

VERIF = os.path.dirname(os.path.dirname(os.path.abspath(__file__)))
REPO = os.environ.get("VERIF_REPO", "/repo")


def run():
    """returns (ok, n_fail_witnesses, n_twins, tail of output)"""
    w = os.path.join(VERIF, "witness")
    shutil.copy(os.path.join(REPO, "Cargo.lock"), os.path.join(w, "Cargo.lock"))
    env = dict(os.environ, CARGO_TARGET_DIR=os.path.join(VERIF, ".work", "target-witness"), CARGO_NET_OFFLINE="true")
    env.pop("RUSTC_WORKSPACE_WRAPPER", None)
    env.pop("RUSTFLAGS", None)
    p = subprocess.run(["cargo", "+nightly", "test", "--doc", "--offline"], cwd=w, env=env, stdout=subprocess.PIPE, stderr=subprocess.STDOUT, text=True)
    out = p.stdout
    cf = len(re.findall(r"- compile fail \.\.\. ok", out))
    cf_bad = len(re.findall(r"- compile fail \.\.\. FAILED", out))
    tw = len(re.findall(r"^test src/lib\.rs - \(line \d+\) \.\.\. ok", out, re.M))
    tw_bad = len(re.findall(r"^test src/lib\.rs - \(line \d+\) \.\.\. FAILED", out, re.M))
    ok = p.returncode == 0 and cf >= 3 and tw >= 3 and not cf_bad and not tw_bad
    return ok, cf, tw, cf_bad, tw_bad, out[-1500:]
