"""developer aid: python3 -m sa.show <fn-short-path-regex> [P|E] [config]"""
import sys
from . import mir
pat = sys.argv[1]
form = sys.argv[2] if len(sys.argv) > 2 else "P"
cfg = sys.argv[3] if len(sys.argv) > 3 else "default"
F = mir.Facts(cfg)
for f in F.fns(pat, form):
    print("=" * 100)
    print(f.id, f.kind, f.loc(), "argc", f.argc, "impl", f.self_ty, f.impl_trait)
    print("vars:", {k: v for k, v in f.vars.items()})
    if "-t" in sys.argv:
        for i in range(f.nlocals):
            print("   _%d: %s" % (i, f.local_ty(i)))
    print(f.dump())
