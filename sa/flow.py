"""A5: forward move-flow of an owned value (ownership / pairing rules).

`forward(F, fn, start)` follows a value from the local where it is obtained along *moves* (and copies of whole
locals): assignments, aggregates (the value becomes part of a bigger owned value), variant payload projections,
forwarding calls (Try::branch, Option/Result adaptors, into_iter/next, collect...), closures (a value moved into
`Option::map(opt, closure)` / `Fn::call(closure, (args))` continues in the closure's parameter; a value returned by a
closure continues in the result of the call the closure was handed to), and — one level — direct calls of local
functions whose result carries the argument.  The analysis is a may-analysis: it answers "which sinks can this
value reach by being moved", and conversely "this value can reach no sink" (it can only be dropped).
"""
import re

from .mir import Operand, Place, backslice, closure_upvar_operands

# calls that hand their (by-value) argument 0 on to their result, possibly re-wrapped
FORWARD = re.compile("|".join([
    r"^(std|core)::ops::Try::branch$", r"^(std|core)::ops::FromResidual::from_residual$",
    r"^(std|core)::option::Option::<T>::(unwrap|expect|unwrap_or_default|take|unwrap_unchecked|ok_or|ok_or_else|unwrap_or|unwrap_or_else|or|or_else|filter|inspect|flatten|zip|xor)$",
    r"^(std|core)::result::Result::<T, E>::(unwrap|expect|ok|unwrap_or_default|unwrap_or|unwrap_or_else|inspect|inspect_err)$",
    r"^(std|core)::convert::(Into::into|From::from)$", r"^(std|core)::iter::IntoIterator::into_iter$",
    r"^(std|core)::iter::Iterator::(next|collect|enumerate|rev|peekable|chain|flatten|last|nth)$", r"^itertools::Itertools::collect_vec$",
    r"^std::sync::Arc::<T>::new$", r"^std::boxed::Box::<T>::new$", r"^(std|core)::task::Poll::<T>::", r"^std::vec::Vec::<T, A>::(drain|into_boxed_slice|pop|remove|swap_remove)$",
    r"^std::vec::Drain", r"^(std|core)::mem::(take|replace)$", r"^(std|core)::option::Option::<&T>::(cloned|copied)$",
    r"^std::collections::VecDeque::<T, A>::(pop_front|pop_back|drain)$", r"^(std|core)::iter::Iterator::by_ref$",
    r"^(std|core)::pin::Pin::<Ptr>::", r"^foyer_common::utils::option::OptionExt", r"^(std|core)::ops::Deref(Mut)?::deref(_mut)?$",
    r"^(std|core)::option::Option::<T>::(as_mut|as_ref)$", r"^(std|core|futures_util|futures_core)::(future::)?Future::poll$",
    r"^(std|core)::future::IntoFuture::into_future$", r"^futures_util::FutureExt::(poll_unpin|boxed)$",
]))
# calls taking (value, closure): the payload continues as the closure's first explicit parameter; the closure's
# return value is what the call returns
WITH_CLOSURE = re.compile("|".join([
    r"^(std|core)::option::Option::<T>::(map|and_then|map_or|map_or_else|inspect|filter|is_some_and|is_none_or|unwrap_or_else|or_else|ok_or_else)$",
    r"^(std|core)::result::Result::<T, E>::(map|and_then|map_err|inspect|unwrap_or_else|or_else|map_or|map_or_else)$",
    r"^(std|core)::iter::Iterator::(map|for_each|filter|filter_map|inspect|fold|flat_map|any|all|find)$",
    r"^foyer_common::utils::scope::Scope::with$", r"^(std|core)::task::Poll::<T>::map$",
]))
CLOSURE_CALL = re.compile(r"^(std|core)::ops::(Fn|FnMut|FnOnce)::call(_mut|_once)?$")
# container insertions: (callee regex) -> the container (arg 0, by &mut) now owns the value
STORE = re.compile(r"^std::vec::Vec::<T, A>::(push|insert|extend|append)$|^std::collections::VecDeque::<T, A>::(push_back|push_front)$|"
                   r"^(std|core)::iter::Extend::extend$|^std::collections::(HashMap|BTreeMap|HashSet)::<.*>::insert$")


class Flow:
    def __init__(self):
        self.sinks = []      # (fn, block, what, detail)
        self.returned = []   # fns (non-closure) from which the value is returned
        self.stored = []     # (fn, block, Term, container Slice) value pushed into a container reached through &mut
        self.calls = []      # (fn, block, Term, arg index): passed by value to a call that is not understood
        self.visited = set()  # (fn id, local)
        self.dropped_in = []  # informational

    def reached(self, pred):
        return [s for s in self.sinks if pred(s)]


def _closure_def_of(fn, operand, tab=None, depth=0):
    """def path of the closure an operand (closure value or reference to it) denotes; follows closure upvars into
    the enclosing body (a closure captured by another closure)"""
    if operand.place is None:
        return None
    sl = backslice(fn, operand, "prov")
    for b, s in sl.aggs:
        if s.rv.j.get("ak") in ("closure", "coroutine", "coroutine_closure"):
            return s.rv.j.get("def")
    if tab is not None and depth < 4 and fn.kind in ("closure", "coroutine") and fn.parent in tab and sl.upvars:
        par = tab[fn.parent]
        ups, _, _ = closure_upvar_operands(par, fn.id)
        if ups:
            for u in sl.upvars:
                if u in ups:
                    d = _closure_def_of(par, ups[u], tab, depth + 1)
                    if d:
                        return d
    return None


def forward(F, fn, start_locals, sink=None, form="P", max_nodes=4000, stop_call=None):
    """sink(fn, stmt_or_term, field_name|arg_index, kind) -> str|None describes a sink when the tracked value is moved
    into an aggregate field (kind 'agg') or passed to a call (kind 'call')."""
    fl = Flow()
    tab = F.P if form == "P" else F.E
    work = [(fn, l) for l in start_locals]
    while work and len(fl.visited) < max_nodes:
        f, l = work.pop()
        if (f.id, l) in fl.visited:
            continue
        fl.visited.add((f.id, l))
        if l == 0:
            # returned from f
            if f.kind in ("closure", "coroutine") and f.parent in tab:
                par = tab[f.parent]
                _, _, s = closure_upvar_operands(par, f.id)
                if s is not None and s.place.is_local():
                    # follow the closure value to the call it is handed to
                    cl_locals = _forward_plain(par, s.place.local)
                    for b in par.blocks:
                        if b.cleanup or b.term.k != "call":
                            continue
                        for a in b.term.args:
                            if a.place is not None and a.place.local in cl_locals:
                                work.append((par, b.term.dest.local))
                else:
                    fl.returned.append(f)
            else:
                fl.returned.append(f)
            continue
        for b in f.blocks:
            if b.cleanup:
                continue
            for s in b.stmts:
                if s.k != "assign":
                    continue
                rv = s.rv
                ops = rv.ops if rv.k in ("use", "cast", "agg", "repeat") else []
                if rv.k == "agg":
                    for (name, o) in rv.agg_fields():
                        if o.place is not None and o.place.local == l and o.kind in ("move", "copy"):
                            d = sink(f, s, name, "agg") if sink else None
                            if d:
                                fl.sinks.append((f, b.idx, d, s))
                            else:
                                work.append((f, s.place.local))
                elif rv.k in ("use", "cast"):
                    o = rv.ops[0]
                    if o.place is not None and o.place.local == l:
                        # moving the whole value or a payload (variant field / tuple field) out of it
                        work.append((f, s.place.local))
                elif rv.k in ("ref", "rawptr") and rv.place.local == l:
                    # borrowed: follow only for `&mut`-free iteration idioms (into_iter(&mut it).next())
                    if rv.j.get("m") == "mut" or rv.k == "rawptr":
                        fl.dropped_in.append(("borrowed", f.id, s.ln))
                        work.append((f, s.place.local))
                    else:
                        work.append((f, s.place.local)) if _is_iter_like(f, l) else None
            t = b.term
            if t.k == "call":
                for i, a in enumerate(t.args):
                    if a.place is None or a.place.local != l:
                        continue
                    callee = t.callee or ""
                    if stop_call is not None and stop_call(f, t, i):
                        continue
                    d = sink(f, t, i, "call") if sink else None
                    if d:
                        fl.sinks.append((f, b.idx, d, t))
                        continue
                    if CLOSURE_CALL.search(callee):
                        if i == 0:
                            continue
                        # args tuple -> closure params
                        cdef = _closure_def_of(f, t.args[0], tab)
                        if cdef and cdef in tab:
                            cf = tab[cdef]
                            # the tuple local: which element carries the value?
                            for p in range(2, cf.argc + 1):
                                work.append((cf, p))
                            continue
                        fl.calls.append((f, b.idx, t, i))
                    elif WITH_CLOSURE.search(callee) and i == 0:
                        handled = False
                        for a2 in t.args[1:]:
                            cdef = _closure_def_of(f, a2, tab)
                            if cdef and cdef in tab:
                                cf = tab[cdef]
                                for p in range(2, cf.argc + 1):
                                    work.append((cf, p))
                                handled = True
                        if not handled or re.search(r"(inspect|filter|unwrap_or_else|or_else|ok_or_else)$", callee):
                            work.append((f, t.dest.local))
                    elif FORWARD.search(callee):
                        work.append((f, t.dest.local))
                    elif STORE.search(callee) and i >= 1:
                        fl.stored.append((f, b.idx, t, backslice(f, t.args[0], "prov")))
                    else:
                        fl.calls.append((f, b.idx, t, i))
                        # a local (same-crate) function taking the value by value: its result may carry it on
                        work.append((f, t.dest.local)) if a.kind == "move" and _callee_is_local_ctor(callee) else None
            elif t.k == "yield":
                v = Operand(t.j["v"])
                if v.place is not None and v.place.local == l:
                    fl.calls.append((f, b.idx, t, 0))
        # captured by a closure built in f?
        for b in f.blocks:
            if b.cleanup:
                continue
            for s in b.stmts:
                if s.k == "assign" and s.rv.k == "agg" and s.rv.j.get("ak") in ("closure", "coroutine", "coroutine_closure"):
                    for (name, o) in s.rv.agg_fields():
                        if o.place is not None and o.place.local == l:
                            cdef = s.rv.j.get("def")
                            if cdef in tab:
                                cf = tab[cdef]
                                for ul in _upvar_locals(cf, name):
                                    work.append((cf, ul))
    return fl


def _callee_is_local_ctor(callee):
    return bool(re.search(r"^foyer_(memory|storage|common)::|^foyer::", callee)) and bool(re.search(r"::(new|from|into_[a-z_]+|with_[a-z_]+)$", callee))


def _is_iter_like(f, l):
    t = f.local_ty(l)
    return "IntoIter" in t or "Drain" in t or "Iter<" in t


def _forward_plain(fn, l):
    """locals a value is moved/copied/borrowed to by plain assignments (no calls)"""
    out = {l}
    changed = True
    while changed:
        changed = False
        for b in fn.blocks:
            for s in b.stmts:
                if s.k == "assign" and s.place.is_local() and s.place.local not in out:
                    rv = s.rv
                    src = None
                    if rv.k in ("use", "cast") and rv.ops[0].place is not None:
                        src = rv.ops[0].place.local
                    elif rv.k in ("ref", "rawptr"):
                        src = rv.place.local
                    if src in out:
                        out.add(s.place.local)
                        changed = True
    return out


def _upvar_locals(cf, name):
    """locals in closure body `cf` that receive (a move/copy of) upvar `name`"""
    out = []
    for b in cf.blocks:
        for s in b.stmts:
            if s.k == "assign" and s.rv.k in ("use", "cast") and s.rv.ops[0].place is not None:
                p = s.rv.ops[0].place
                if p.local == 1 and p.fields()[:1] == [name]:
                    out.append(s.place.local)
    return out
