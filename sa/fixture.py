"""facts of the fixture crate (positive examples for zero-count rules), dumped with the same driver"""
import glob, hashlib, json, os, shutil, subprocess, fcntl

from . import dump, mir

VERIF = dump.VERIF


def ensure():
    src = os.path.join(VERIF, "fixtures", "foyer_fixture")
    out = os.path.join(dump.WORK, "facts", "fixture")
    h = hashlib.sha256()
    for f in ("Cargo.toml", "src/lib.rs"):
        h.update(open(os.path.join(src, f), "rb").read())
    try:
        h.update(hashlib.sha256(open(dump.DRIVER, "rb").read()).digest())
    except FileNotFoundError:
        pass
    want = h.hexdigest()
    os.makedirs(dump.WORK, exist_ok=True)
    lock = open(os.path.join(dump.WORK, "dump.fixture.lock"), "w")
    fcntl.flock(lock, fcntl.LOCK_EX)
    try:
        dump.build_driver()
        stamp = os.path.join(out, "STAMP")
        if os.path.exists(stamp) and open(stamp).read() == want and glob.glob(os.path.join(out, "foyer_fixture.*.json")):
            return out
        shutil.rmtree(out, ignore_errors=True)
        os.makedirs(out)
        target = os.path.join(dump.TARGET_BASE, "target-fixture")
        shutil.rmtree(os.path.join(target, "debug", ".fingerprint"), ignore_errors=True)
        env = dict(os.environ, LD_LIBRARY_PATH=dump.sysroot() + "/lib", RUSTFLAGS="-Zmir-opt-level=0 -Awarnings", RUSTC_WORKSPACE_WRAPPER=dump.DRIVER,
                   MIRFACTS_OUT=out, MIRFACTS_TAG="fixture", CARGO_TARGET_DIR=target, CARGO_NET_OFFLINE="true")
        r = subprocess.run(["cargo", "+nightly", "check", "--offline"], cwd=src, env=env, stdout=subprocess.PIPE, stderr=subprocess.STDOUT, text=True)
        if r.returncode != 0 or not glob.glob(os.path.join(out, "foyer_fixture.*.json")):
            raise SystemExit("fixture: cannot analyse the fixture crate:\n" + r.stdout[-2000:])
        open(stamp, "w").write(want)
        return out
    finally:
        fcntl.flock(lock, fcntl.LOCK_UN)
        lock.close()


def facts():
    return mir.Facts("fixture", directory=ensure(), crates=["foyer_fixture"])
