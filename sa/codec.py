"""A6: codec extraction — ordered (range, width, role) lists from bytes::{BufMut::put_*, Buf::get_*} call sites."""
import re

from .mir import backslice

WIDTH = {"u8": 1, "i8": 1, "u16": 2, "i16": 2, "u32": 4, "i32": 4, "u64": 8, "i64": 8, "u128": 16, "i128": 16, "f32": 4, "f64": 8}


def _range_of(fn, op):
    """constant (start, end) of the slice expression `buf[a..b]` an operand is derived from, or None"""
    sl = backslice(fn, op, "prov")
    for b, t in sl.calls:
        if t.callee and re.search(r"ops::(Index|IndexMut)::index(_mut)?$", t.callee):
            rsl = backslice(fn, t.args[1], "prov")
            for _, s in rsl.aggs:
                if (s.rv.j.get("adt") or "").endswith("ops::Range"):
                    vals = [o.const_val() if o.is_const() else _const_of(fn, o) for _, o in s.rv.agg_fields()]
                    if len(vals) == 2 and None not in vals:
                        return tuple(vals)
                if (s.rv.j.get("adt") or "").endswith("ops::RangeFrom") or (s.rv.j.get("adt") or "").endswith("ops::RangeTo"):
                    vals = [o.const_val() if o.is_const() else _const_of(fn, o) for _, o in s.rv.agg_fields()]
                    return (s.rv.j["adt"].rsplit("::", 1)[-1],) + tuple(vals)
    return None


def _const_of(fn, o):
    sl = backslice(fn, o, "prov")
    vs = sl.const_vals()
    return vs[0] if len(vs) == 1 and not sl.args and not sl.calls else None


def _order(fn, blocks):
    dom = fn.dominators()
    return sorted(blocks, key=lambda b: (len(dom.get(b.idx, ())), b.idx))


def writer(fn, self_adt=None):
    """[(range|None, type, role)] — role = the field of `self_adt` (or any field) the written value comes from"""
    out = []
    for b in _order(fn, fn.calls_to(r"bytes::BufMut::put_\w+$")):
        t = b.term
        ty = t.callee.rsplit("put_", 1)[-1]
        sl = backslice(fn, t.args[1], "dep")
        flds = [n for of, n in sorted(sl.fields) if self_adt is None or of == self_adt]
        role = flds[0] if len(flds) == 1 else ("+".join(flds) if flds else ("const" if sl.consts and not sl.args else "?"))
        out.append((_range_of(fn, t.args[0]), ty, role))
    return out


def reader(fn, adt):
    """[(range|None, type, role)] — role = the field of the constructed `adt` the read value flows to"""
    aggs = [s for b in fn.blocks if not b.cleanup for s in b.stmts if s.k == "assign" and s.rv.k == "agg" and s.rv.j.get("adt") == adt]
    fields = dict(aggs[0].rv.agg_fields()) if aggs else {}
    fsl = {n: backslice(fn, o, "prov", extra_transparent=[r"TryFrom::try_from$", r"::try_from$", r"::from_le_bytes$", r"::from_be_bytes$"]) for n, o in fields.items() if o.place is not None}
    out = []
    for b in _order(fn, fn.calls_to(r"bytes::Buf::get_\w+$")):
        t = b.term
        ty = t.callee.rsplit("get_", 1)[-1]
        roles = [n for n, s in fsl.items() if any(bb == b.idx for bb, _ in s.calls)]
        role = roles[0] if len(roles) == 1 else ("+".join(sorted(roles)) if roles else "?")
        out.append((_range_of(fn, t.args[0]), ty, role))
    return out


def total_width(seq):
    return sum(WIDTH.get(ty.replace("_le", "").replace("_ne", ""), 0) for _, ty, _ in seq)
