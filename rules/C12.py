"""C12 — disk writes happen exactly when policy and placement advice say so (DESIGN.md §4 C12)."""
import re

from sa import mir, tables
from sa.mir import backslice, AnchorMissing

TITLE = "C12: every Store::enqueue in the hybrid layer is guarded by location != InMem; policy / origin guards; young entries skipped; phantom entries."
NOT_DECIDED = [
    "the number of device writes actually issued per entry (batching, throttling, shedding)",
    "that evictions under write-on-insertion write nothing (decided only as: no pipe is installed for that policy)",
    "timing: that the origin fetch runs only after the memory and disk lookups missed is decided structurally by C06.single-fetch",
]

ENQ = r"^foyer_storage::Store::<K, V, S, P>::enqueue$|^foyer_storage::store::Store::<K, V, S, P>::enqueue$"
LOCATION = "foyer_common::properties::Location"
POLICY = "foyer::hybrid::cache::HybridCachePolicy"
SOURCE = "foyer_common::properties::Source"
ACCESSORS = [r"::properties$", r"::piece$", r"Piece::<K, V, P>::new$", r"::location$", r"::source$"]


def _enqueue_sites(F):
    out = []
    for f in F.all_fns("P"):
        if f.crate.name != "foyer":
            continue
        for b in f.calls_to(ENQ):
            out.append((f, b))
    return out


def _subject_is(fn, site_term, accessor):
    """predicate: the tested value is `<x>.<accessor>()` where <x> shares a root with the piece handed to enqueue"""
    piece = backslice(fn, site_term.args[1], "prov", extra_transparent=ACCESSORS)
    roots = {l for l in piece.locals if fn.local_name(l) or 1 <= l <= fn.argc} | piece.upvars

    def pred(f, sl):
        if not sl.has_call(accessor):
            return False
        sub = backslice(f, [t.args[0] for _, t in sl.calls if t.callee and re.search(accessor, t.callee)], "prov", extra_transparent=ACCESSORS)
        r2 = {l for l in sub.locals if f.local_name(l) or 1 <= l <= f.argc} | sub.upvars
        return bool(roots & r2)
    return pred


def inmem_guard(r, F):
    sites = _enqueue_sites(F)
    for f, b in sites:
        t = b.term
        # exemption: HybridCache::insert writes an entry created with default properties (location = Default)
        sl = backslice(f, t.args[1], "prov", extra_transparent=ACCESSORS)
        from_plain_insert = sl.has_call(r"foyer_memory::Cache::<K, V, S, P>::insert$") and not sl.has_call(r"insert_with_properties")
        if from_plain_insert:
            r.ok(f, "enqueue(default-properties entry)", "entry comes from Cache::insert (default properties: Location::Default), no advice to honour", ln=t.ln)
            continue
        atoms = tables.variant_atoms(f, LOCATION, "InMem", _subject_is(f, t, r"::location$"))
        r.require(tables.guarded_by_ne(f, atoms, b.idx), f, "enqueue guarded by location!=InMem",
                  "every path to Store::enqueue crosses a test establishing location != InMem (line %s)" % sorted({a.ln for a in atoms}),
                  "Store::enqueue is reachable for an entry whose placement advice is Location::InMem: an in-memory-only entry is written to disk", ln=t.ln)
    if len(sites) < 5:
        r.fail(None, "sites", "only %d Store::enqueue call sites found in crate foyer (5 confirmed on the pinned tree)" % len(sites))


def policy_guard(r, F):
    n = 0
    for f, b in _enqueue_sites(F):
        if f.impl_trait and f.impl_trait.endswith("Pipe"):
            continue
        root = F.P.get(f.root, f)
        if root.impl_trait and root.impl_trait.endswith("Pipe"):
            continue
        n += 1
        atoms = tables.variant_atoms(f, POLICY, "WriteOnInsertion", lambda fn, sl: sl.has_field("policy"))
        r.require(tables.guarded_by_eq(f, atoms, b.idx), f, "enqueue guarded by policy==WriteOnInsertion",
                  "insert-time / post-fetch write only under the write-on-insertion policy (line %s)" % sorted({a.ln for a in atoms}),
                  "an insert-time / post-fetch disk write is not guarded by policy == WriteOnInsertion: write-on-eviction caches write on insert", ln=b.term.ln)
    if n < 3:
        r.fail(None, "sites", "only %d non-pipe enqueue sites found (3 confirmed: insert, insert_with_properties, HybridGetOrFetch::poll)" % n)
    # builder: the pipe is installed exactly for (storage present, WriteOnEviction)
    cands = [f for f in F.fns(r"^foyer::hybrid::builder::HybridCacheBuilderPhaseStorage::build::\{closure#0\}$")]
    if len(cands) != 1:
        raise AnchorMissing("HybridCacheBuilderPhaseStorage::build async body not found")
    f = cands[0]
    wp = f.calls_to(r"with_pipe$")
    if not wp:
        raise AnchorMissing("builder: Cache::with_pipe call not found")
    # the decision variable: the bool local whose switch guards with_pipe and which is only ever assigned constants
    piped = []
    for sw in mir.find_switches(f):
        d = sw.term.discr
        if d.place is None:
            continue
        tt, ft = tables.bool_switch_targets(sw)
        if tt is None or not all(f.edge_guards(sw.idx, tt, w.idx) for w in wp):
            continue
        for l in backslice(f, d, "prov").locals:
            ds = [x for x in f.defs().get(l, []) if x[2] == "assign" and not f.blocks[x[0]].cleanup]
            if len(ds) >= 2 and all(x[3].rv.k == "use" and x[3].rv.ops[0].is_const() for x in ds):
                piped.append(l)
    if not piped:
        raise AnchorMissing("builder: the boolean deciding whether the eviction pipe is installed was not found")
    sets = [(b.idx, s) for b in f.blocks if not b.cleanup for s in b.stmts if s.k == "assign" and s.place.is_local() and s.place.local in piped
            and s.rv.k == "use" and s.rv.ops[0].is_const()]
    trues = [bi for bi, s in sets if s.rv.ops[0].const_val() == 1]
    atoms_e = tables.variant_atoms(f, POLICY, "WriteOnEviction")
    ok_true = bool(trues) and all(tables.guarded_by_eq(f, atoms_e, bi) for bi in trues)
    # and the noop test: piped=true only when is_noop() is false
    ok_noop = bool(trues) and all(tables.bool_call_guards(f, r"is_noop$", bi, want=False) or _tuple_bool_guard(f, bi) for bi in trues)
    r.require(ok_true and ok_noop, f, "piped==true only for (storage, WriteOnEviction)",
              "the eviction pipe is requested only for a real store under WriteOnEviction", "the eviction pipe can be installed under WriteOnInsertion or for a noop store", ln=f.blocks[trues[0]].stmts[0].ln if trues else f.lo)
    # with_pipe guarded by piped
    ok = False
    for sw in mir.find_switches(f):
        d = sw.term.discr
        if d.place is not None and d.place.is_local() and (d.place.local in piped or set(backslice(f, d, "prov").locals) & set(piped)):
            tt, ft = tables.bool_switch_targets(sw)
            if all(f.edge_guards(sw.idx, tt, w.idx) for w in wp):
                ok = True
    r.require(ok, f, "with_pipe guarded by piped", "HybridCachePipe is installed only when piped", "HybridCachePipe is installed regardless of the policy decision", ln=wp[0].term.ln)


def _tuple_bool_guard(f, block):
    """the block is reached only through the `false` edge of a switch on field 0 of the (is_noop, policy) tuple"""
    for sw in mir.find_switches(f):
        d = sw.term.discr
        if d.place is None:
            continue
        sl = backslice(f, d, "prov")
        if not sl.has_call(r"is_noop$") or sl.has_field("policy"):
            continue
        tt, ft = tables.bool_switch_targets(sw)
        if ft is not None and f.edge_guards(sw.idx, ft, block):
            return True
    return False


def origin_only(r, F):
    f = F.method("foyer::hybrid::cache::HybridGetOrFetch", "poll", "Future")
    sites = f.calls_to(ENQ)
    if not sites:
        raise AnchorMissing("HybridGetOrFetch::poll: Store::enqueue not found")
    for b in sites:
        atoms = tables.variant_atoms(f, SOURCE, "Outer", _subject_is(f, b.term, r"::source$"))
        r.require(tables.guarded_by_eq(f, atoms, b.idx), f, "post-fetch enqueue guarded by source()==Outer",
                  "only an entry produced by the origin fetch is written (line %s)" % sorted({a.ln for a in atoms}),
                  "the post-fetch Store::enqueue is not guarded by entry.source() == Source::Outer: memory hits and entries just loaded "
                  "from disk are rewritten to the device on every get_or_fetch", ln=b.term.ln)


def young(r, F):
    f = F.method("foyer_storage::engine::block::engine::BlockEngine", "enqueue")
    subs = [b.idx for b in f.calls_to(r"Flusher::<K, V, P>::submit$")]
    seqs = [b.idx for b in f.calls_to(r"atomic::Atomic::<u64>::fetch_add$")]
    if not subs or not seqs:
        raise AnchorMissing("BlockEngine::enqueue: Flusher::submit / sequence.fetch_add not found")
    atoms = tables.variant_atoms(f, "foyer_common::properties::Age", "Young", lambda fn, sl: sl.has_call(r"::age$"))
    if not atoms:
        raise AnchorMissing("BlockEngine::enqueue: no test of properties().age() against Age::Young")
    for blk, what in [(s, "Flusher::submit") for s in subs] + [(s, "sequence.fetch_add") for s in seqs]:
        r.require(tables.guarded_by_ne(f, atoms, blk), f, "Young skips " + what, "an entry that was just loaded from disk (Age::Young) returns before " + what,
                  "a Young entry (just loaded from disk) reaches %s: disk hits are rewritten to disk" % what, ln=f.blocks[blk].term.ln)
    # Fresh / Old are not filtered: submit reachable on the ne edges
    ne_targets = [e[1] for a in atoms for e in a.ne_edges]
    r.require(any(s in f.reachable(ne_targets) for s in subs), f, "Fresh|Old submit", "non-young entries are submitted",
              "entries that are not Young never reach Flusher::submit", ln=f.lo)


def phantom(r, F):
    f = F.fn("foyer_memory::raw::RawCache::insert_with_properties_inner")
    wps = f.calls_to(r"Properties::with_phantom$")
    if len(wps) < 2:
        raise AnchorMissing("insert_with_properties_inner: the two with_phantom(true) sites not found")
    # (a) filter false -> phantom
    filt = [b for b in f.calls_to(r"ops::Fn::call$") if backslice(f, b.term.args[0], "prov").has_field("filter")]
    if not filt:
        raise AnchorMissing("insert_with_properties_inner: filter call not found")
    ok_a = False
    for fb in filt:
        for (swb, neg) in tables._bool_switches_on(f, fb.idx):
            tt, ft = tables.bool_switch_targets(swb)
            if neg:
                tt, ft = ft, tt
            # on the filter==false edge a with_phantom(true) is passed before the record is built
            if any(f.must_pass(ft, [w.idx], [b.idx for b in f.calls_to(r"Record::<E>::new$")]) and w.term.args[1].const_val() == 1 for w in wps):
                ok_a = True
    r.require(ok_a, f, "filter==false -> phantom", "a rejected entry becomes a phantom (not retained in memory)", "an entry rejected by the admission filter is still retained in memory", ln=filt[0].term.ln)
    atoms = tables.variant_atoms(f, "foyer_common::properties::Location", "OnDisk", lambda fn, sl: sl.has_call(r"::location$"))
    ok_b = bool(atoms) and any(any(f.must_pass(e[1], [w.idx], [b.idx for b in f.calls_to(r"Record::<E>::new$")]) for w in wps if w.term.args[1].const_val() == 1)
                                 for a in atoms for e in a.eq_edges)
    r.require(ok_b, f, "location==OnDisk -> phantom", "an entry advised on-disk becomes a phantom", "an entry advised Location::OnDisk is retained in memory", ln=atoms[0].ln if atoms else f.lo)
    # (c) RawCacheEntry::drop: phantom edge passes Pipe::send when enabled and returns before the release op
    d = F.method("foyer_memory::raw::RawCacheEntry", "drop", "Drop")
    ph = d.calls_to(r"Properties::phantom$")
    sends = [b.idx for b in d.calls_to(r"^foyer_memory::pipe::Pipe::send$")]
    rel = [b.idx for b in d.calls_to(r"^foyer_memory::eviction::Eviction::release$")]
    en = d.calls_to(r"^foyer_memory::pipe::Pipe::is_enabled$")
    if not (ph and sends and rel and en):
        raise AnchorMissing("RawCacheEntry::drop: phantom()/Pipe::send/Eviction::release/is_enabled not all found")
    ok_c = False
    for pb in ph:
        sl_blocks = [sw for sw in mir.find_switches(d) if any(bb == pb.idx for bb, _ in backslice(d, sw.term.discr, "prov").calls)]
        for sw in sl_blocks:
            tt, ft = tables.bool_switch_targets(sw)
            reach_t = d.reachable([tt])
            no_release = not (set(rel) & reach_t)
            send_when_enabled = all(any(s in d.reachable([tables.bool_switch_targets(esw)[0]]) for s in sends)
                                    for e in en if e.idx in reach_t for (esw, _) in tables._bool_switches_on(d, e.idx))
            release_only_else = all(d.edge_guards(sw.idx, ft, x) for x in rel)
            if no_release and send_when_enabled and release_only_else and any(s in reach_t for s in sends):
                ok_c = True
    r.require(ok_c, d, "drop(phantom) -> pipe.send, no release", "the last handle of a disk-only entry hands it to the disk tier and skips the eviction release",
              "dropping the last handle of a phantom (disk-only) entry does not offer it to the pipe, or runs the eviction release on a record that was never in the container", ln=d.lo)


def probation_lifecycle(r, F):
    """'rewritten only if its block was already marked for imminent reclaim': the mark is per block *generation* — the age of a
    loaded entry is read from the block's probation flag, the flag is set only by the picker, and it is cleared with every other
    per-generation statistic when the block is reclaimed (reset covers every field of BlockStatistics)"""
    BS = "foyer_storage::engine::block::manager::BlockStatistics"
    rs = F.method(BS, "reset")
    adt = None
    for c in F.crates.values():
        if BS in c.adts:
            adt = c.adts[BS]
    if adt is None:
        raise AnchorMissing("BlockStatistics not found in the ADT table")
    fields = [f[0] for f in adt["variants"][0]["fields"]]
    stored = {}
    for b in rs.calls_to(r"atomic::Atomic::<\w+>::store$"):
        sl = backslice(rs, b.term.args[0], "prov")
        for of, n in sl.fields:
            if of == BS:
                stored[n] = b.term.args[1].const_val()
    uncond = all(rs.must_pass(0, [b.idx]) for b in rs.calls_to(r"atomic::Atomic::<\w+>::store$"))
    r.require(uncond, rs, "reset is unconditional", "every store of BlockStatistics::reset runs on every path", "BlockStatistics::reset clears some statistic only on some paths", ln=rs.lo)
    for f in fields:
        r.require(f in stored and stored[f] == 0, rs, "reset clears BlockStatistics." + f, "the per-generation statistic `%s` is zeroed when the block is recycled" % f,
                  "BlockStatistics::reset does not clear `%s`: a recycled block keeps the previous generation's value%s" % (
                      f, " — entries loaded from it are treated as `about to be reclaimed` forever and are rewritten to disk on every eviction" if f == "probation" else ""), ln=rs.lo)
    # reset is called when a block has been reclaimed
    rc = F.fn("<foyer_storage::engine::block::reclaimer::Reclaimer<K, V, P> as foyer_storage::engine::block::reclaimer::ReclaimerTrait>::reclaim::{closure#0}")
    rr = rc.calls_to(r"BlockStatistics::reset$")
    r.require(bool(rr) and rc.must_pass(0, [x.idx for x in rr]), rc, "reclaim resets the block's statistics", "every reclaimed block starts its next generation with cleared statistics",
              "a reclaimed block is released without resetting its statistics", ln=rc.lo)
    # the age handed to the memory tier is derived from that flag: true -> Old, false -> Young
    ld = [c for c in F.descendants(F.method("foyer_storage::engine::block::engine::BlockEngine", "load")) if c.kind == "coroutine" and c.calls_to(r"serde::EntryDeserializer::deserialize$")][0]
    lo = [b for b in ld.calls_to(r"atomic::Atomic::<bool>::load$") if backslice(ld, b.term.args[0], "prov").has_field("probation", BS)]
    ok = False
    for b in lo:
        for (swb, neg) in tables._bool_switches_on(ld, b.idx):
            tt, ft = tables.bool_switch_targets(swb)
            if neg:
                tt, ft = ft, tt
            def ages(t):
                reach = ld.reachable([t], avoid=[swb.idx, ft if t == tt else tt])
                return {s.rv.j.get("variant") for bb in reach for s in ld.blocks[bb].stmts if s.k == "assign" and s.rv.k == "agg" and (s.rv.j.get("adt") or "").endswith("properties::Age")}
            ok = ages(tt) == {"Old"} and ages(ft) == {"Young"}
    r.require(ok, ld, "age = probation ? Old : Young", "an entry loaded from a block marked for reclaim is Old (rewritten on eviction), otherwise Young (skipped)",
              "the age of a loaded entry is not derived as `probation ? Old : Young`", ln=ld.lo)
    # only the picker sets the mark
    n = 0
    for f in F.all_fns("P"):
        if f.crate.name != "foyer_storage":
            continue
        for b in f.calls_to(r"atomic::Atomic::<bool>::store$"):
            sl = backslice(f, b.term.args[0], "prov")
            if sl.has_field("probation", BS) and b.term.args[1].const_val() == 1:
                n += 1
                root = F.P.get(f.root, f)
                r.require("eviction::" in root.short, f, "probation set only by eviction pickers", "the mark is set by a picker", "the probation mark is set outside the eviction pickers", ln=b.term.ln)
    if n < 1:
        r.fail(None, "sites", "no site setting the probation mark found")


def enqueue_guards_exact(r, F):
    """the converse of the guard rules: an entry that satisfies the policy / location / origin conditions DOES reach Store::enqueue. Every condition that guards
    an enqueue in the hybrid layer is one of the prescribed kinds (policy, location, source, store enabled, throttled flag, the future / iterator plumbing);
    any other guarding condition means some admitted entries are silently not written."""
    ALLOWED_EQ = ("foyer_memory::raw::Source", "foyer_common::properties::Source", "foyer_common::properties::Location", "foyer::hybrid::builder::HybridCachePolicy", "foyer::hybrid::cache::HybridCachePolicy", "HybridCachePolicy", "Location", "Source")
    n = 0
    for f in F.all_fns("P"):
        if f.crate.name != "foyer" or "::tests::" in f.short:
            continue
        for c in f.calls_to(r"Store::<K, V, S, P>::enqueue$"):
            n += 1
            extra = []
            for b in f.blocks:
                if b.cleanup or b.term.k != "switch" or b.idx == c.idx:
                    continue
                ts = {t for v, t in b.term.j["ts"]} | {b.term.j["else"]}
                if not any(t is not None and f.edge_guards(b.idx, t, c.idx) and c.idx in f.reachable([t]) for t in ts):
                    continue
                if b.term.discr.place is None:
                    continue
                sl = backslice(f, b.term.discr, "prov")
                callees = [t.callee or "" for bb, t in sl.calls]
                tys = {f.local_ty(l) or "" for l in sl.locals}
                ok = False
                if any(re.search(r"cmp::PartialEq::(eq|ne)$|PartialEq<.*>>::(eq|ne)$", x) for x in callees):
                    for bb, t in sl.calls:
                        if t.callee and re.search(r"PartialEq", t.callee):
                            aty = " ".join(f.local_ty(a.place.local) or "" for a in t.args if a.place is not None)
                            ok = ok or any(k in aty for k in ALLOWED_EQ)
                elif any(re.search(r"Future::poll$|FutureExt::poll_unpin$|Iterator::next$|Store::<K, V, S, P>::is_enabled$|Atomic::<bool>::load$|Properties::location$|HybridCacheProperties::location$|Result::<T, E>::as_ref$", x) for x in callees):
                    ok = True
                elif any("properties::Location" in x for x in tys):
                    ok = True
                if not ok:
                    extra.append((b.term.ln, sorted(x.rsplit("::", 1)[-1] for x in callees)[:3]))
            r.require(not extra, f, "only prescribed conditions guard the write", "guards of Store::enqueue are policy / location / source / store-enabled / throttled tests and future / iterator plumbing",
                      "an additional condition guards Store::enqueue here %s: entries that the policy, location advice and origin admit are silently not written to the disk tier" % extra, ln=c.term.ln)
    if n < 5:
        r.fail(None, "sites", "only %d Store::enqueue sites in the hybrid layer (5 confirmed)" % n)


def run(chk, F):
    chk.run_rule("C12.inmem-guard", "every Store::enqueue of the hybrid layer is control-dependent on location != InMem of the entry written", 5, inmem_guard, F)
    chk.run_rule("C12.policy-guard", "insert-time and post-fetch writes only under WriteOnInsertion; the eviction pipe only for (store, WriteOnEviction)", 5, policy_guard, F)
    chk.run_rule("C12.enqueue-guards-exact", "no condition other than the prescribed ones guards a disk write of the hybrid layer (admitted entries do reach the disk tier)", 5, enqueue_guards_exact, F)
    from rules import C15 as _C15
    chk.run_rule("C12.flag-writers", "who may write the engine's `active` flag and the probation mark", 2, _C15.flag_writers, F)
    chk.run_rule("C12.origin-only", "the post-fetch write is control-dependent on source() == Outer", 1, origin_only, F)
    chk.run_rule("C12.young", "BlockEngine::enqueue: Age::Young returns before sequence allocation and submit", 3, young, F)
    chk.run_rule("C12.probation-lifecycle", "the reclaim mark is per block generation: set by pickers, read into the entry's age, cleared by reset (which covers every field) on reclaim", 6, probation_lifecycle, F)
    chk.run_rule("C12.phantom", "filter rejection / OnDisk advice make the record a phantom; its last drop pipes it and skips release", 3, phantom, F)
    from rules import mustcall
    mustcall.run_for(chk, F, "C12")
