"""Declarative `must-call` obligations (Engler-style rule template with the slots filled from this repository).

Each entry says: in body B, starting at point S, every path to a return passes a call matching C.  The instances were found by the
statement-deletion sweep (tools/sweep.py del): each is a call whose removal no other rule noticed, was read, and is a necessary step of the
property it is listed under (one line of reason each).  The generic forms are:

  entry            from the body's entry
  ("ok", R)        from the Some / Ok / Continue edge of the (unique) call matching R
  ("after", R)     from the block of every call matching R
  ("arm", V)       from the arm of variant V of a match whose arms include V
  ("agg", ADT)     from every block that builds an aggregate of type ADT
  ("true", R) / ("false", R)   from the true / false edge of the bool returned by the call matching R

A body is located by (self type, method[, trait]) or by a path regex (`re:`), optionally descending into its single coroutine / closure that contains
the obligation (`inner=True`).  Fail closed: a missing body, a missing start point or a missing call is a violation of the entry."""
import re

from sa import mir, tables
from sa.mir import backslice, AnchorMissing

B = "foyer_storage::engine::block"

ENTRIES = [
    # --- C07 / C08: what the flusher buffers is what it later writes
    dict(props=["C07"], body=(B + "::buffer::BlobIndex", "write"), call=r"buffer::BlobEntryIndex::write$", start="entry",
         why="BlobIndex::write must serialize the entry index into the blob index page: otherwise the blob is written with an index that omits the entry and recovery never finds it"),
    dict(props=["C07", "C08"], body=(B + "::buffer::Buffer", "push"), call=r"serde::EntryHeader::write$", start=("ok", r"serde::EntrySerializer::serialize$"),
         why="Buffer::push must write the entry header in front of every serialized entry: lookups and recovery decode the header first"),
    dict(props=["C07", "C09"], body=(B + "::buffer::Buffer", "push_slice"), call=r"copy_from_slice$", start=("dominates", r"Vec::<T, A>::push$"),
         why="Buffer::push_slice must copy the re-inserted bytes before recording the entry: otherwise the recorded range holds stale buffer contents"),
    dict(props=["C07"], body=(B + "::buffer::Splitter", "split"), call=r"buffer::BlobIndex::write$", start=("agg", B + "::buffer::BlobEntryIndex"),
         why="every entry placed in a blob is written to that blob's index"),
    dict(props=["C07", "C04"], body=(B + "::buffer::Splitter", "split"), call=r"Vec::<T, A>::push$", arg_ty=r"buffer::BlobEntryIndex", start=("agg", B + "::buffer::BlobEntryIndex"),
         why="every entry placed in a blob is recorded in the part's `indices` (from which the in-memory index is updated after the write): otherwise the entry is on disk but never becomes visible"),
    dict(props=["C07", "C04"], body=(B + "::buffer::Splitter", "split"), call=r"Vec::<T, A>::push$", arg_ty=r"buffer::BlobPart", start=("ok", r"buffer::Splitter::split_blob$|buffer::Splitter::seal_blob$"),
         why="every blob part produced by split_blob / seal_blob is appended to the batch: a dropped part is never written although its entries were accepted"),
    dict(props=["C07"], body=(B + "::buffer::Splitter", "split_blob"), call=r"buffer::BlobIndex::reset$", start="entry",
         why="starting a new blob resets the blob index on both arms: otherwise the next blob's index still lists the previous blob's entries"),
    dict(props=["C07"], body=(B + "::buffer::Splitter", "seal_blob"), call=r"buffer::BlobIndex::reset$", start=("true", r"buffer::BlobIndex::is_full$"),
         why="a blob sealed with a full index is closed: the index is reset before the next batch appends"),
    dict(props=["C07"], body=(B + "::buffer::Splitter", "split_block"), call=r"Vec::<T, A>::push$", arg_ty=r"buffer::Block\b", start="entry",
         why="moving on to the next block opens a new block in the batch"),
    # --- C04 / C01: the in-memory disk index
    dict(props=["C04", "C01"], body=(B + "::indexer::Indexer", "insert_inner"), call=r"VacantEntry<'a, K, V>::insert$|VacantEntry::<'a, K, V, A>::insert$|Entry.*Vacant.*insert$|VacantEntry.*::insert$", start=("arm", "Vacant"),
         why="a hash that is not yet indexed is inserted: otherwise a freshly written entry never becomes visible"),
    dict(props=["C04"], body="re:^" + re.escape(B) + r"::flusher::Runner::submit_io_task::.*$", inner_call=r"indexer::Indexer::insert_batch$", call=r"Vec::<T, A>::push$", arg_ty=r"indexer::(Hashed)?EntryAddress", start=("agg", B + "::indexer::EntryAddress"),
         why="every written entry's address is collected for the index update that follows the block's writes"),
    # --- C01 / C04: recovery rebuilds the index from everything it scanned
    dict(props=["C04", "C01"], body="re:^" + re.escape(B) + r"::recover::RecoverRunner::run::\{closure#0\}$", call=r"indexer::Indexer::insert_batch$", start="entry_ok",
         why="recovery installs the rebuilt index"),
    dict(props=["C04", "C09"], body="re:^" + re.escape(B) + r"::recover::RecoverRunner::run::\{closure#0\}$", call=r"manager::BlockManager::init$", start="entry_ok",
         why="recovery hands the clean / evictable partition of the blocks to the block manager"),
    dict(props=["C04", "C01"], body="re:^" + re.escape(B) + r"::recover::RecoverRunner::run::\{closure#0\}::\{closure#\d+\}$", inner_call=r"HashMap::<K, V, S, A>::entry$", call=r"VacantEntry::<'a, K, V, A>::insert$|VacantEntry<'a, K, V, A>>::insert$|VacantEntry.*::insert$", start=("arm", "Vacant"),
         why="recovery's dedup table records a hash the first time it is seen (entry or tombstone): otherwise keys with a single version are not recovered"),
    dict(props=["C04", "C01"], body="re:^" + re.escape(B) + r"::recover::RecoverRunner::run::\{closure#0\}$", call=r"ops::FnMut::call_mut$|recover::RecoverRunner::run::\{closure#0\}::\{closure#\d+\}$", arg_ty=r"EntryAddressOrTombstone|\(u64, u64", exact=True, start=("agg", "foyer_storage::engine::block::recover::RecoverRunner::run::{closure#0}::EntryAddressOrTombstone"),
         why="every scanned entry is offered to the dedup table"),
    dict(props=["C04", "C10"], body="re:^" + re.escape(B) + r"::tombstone::TombstoneLog::open::\{closure#0\}$", call=r"iter::Extend::extend$|Vec::<T, A>::extend$", start="entry_ok",
         why="the tombstones read from the log are returned to recovery: otherwise deleted keys come back after a restart"),
    dict(props=["C10"], body="re:^" + re.escape(B) + r"::tombstone::PageBuffer::open::\{closure#0\}$", call=r"tombstone::PageBuffer::update$", start="entry",
         why="opening the page buffer loads the current tail page: otherwise the first append rewrites the page from zeros and erases the tombstones already on it"),
    # --- C09: reclaim
    dict(props=["C09"], body="re:^<" + re.escape(B) + r"::reclaimer::Reclaimer.* as .*ReclaimerTrait>::reclaim::\{closure#0\}$", call=r"indexer::Indexer::remove_batch$", start="entry",
         why="entries of a reclaimed block that are not re-inserted are removed from the index"),
    # --- C05 / C13: the memory index hands back the record it replaced
    dict(props=["C05", "C13"], body=("foyer_memory::indexer::hash_table::HashTableIndexer", "insert", "Indexer"), call=r"mem::swap$|mem::replace$|OccupiedEntry::<'a, T, A>::insert$", start=("arm", "Occupied"),
         why="inserting an existing key swaps the new record into the slot and returns the OLD one: the caller subtracts the returned record's weight and notifies its replacement"),
    dict(props=["C05", "C13"], body=("foyer_memory::indexer::hash_table::HashTableIndexer", "insert", "Indexer"), call=r"VacantEntry::<'a, T, A>::insert$", start=("arm", "Vacant"),
         why="inserting a new key stores the record"),
    # --- the Engine trait forwards to the block engine
    dict(props=["C01", "C12"], body=(B + "::engine::BlockEngine", "enqueue", "Engine"), call=r"engine::BlockEngine::<K, V, P>::enqueue$", start="entry", why="Engine::enqueue forwards to the block engine"),
    dict(props=["C01"], body=(B + "::engine::BlockEngine", "delete", "Engine"), call=r"engine::BlockEngine::<K, V, P>::delete$", start="entry", why="Engine::delete forwards to the block engine"),
    # --- C06 / C11: a finished fetch stores its value
    dict(props=["C06"], body=("foyer_memory::raw::RawFetch", "handle_target"), call=r"RawCache::<E, S, I>::insert_with_properties_inner$", start=("arm", "Entry"),
         why="a fetched value is inserted into the cache (and its waiters answered through emplace)"),
    dict(props=["C06"], body=("foyer_memory::raw::RawFetch", "handle_target"), call=r"RawCache::<E, S, I>::insert_piece$", start=("arm", "Piece"),
         why="a piece loaded from disk is inserted into the cache (and its waiters answered through emplace)"),
    dict(props=["C04", "C10"], body="re:^" + re.escape(B) + r"::recover::RecoverRunner::run::\{closure#0\}::\{closure#\d+\}$", inner_call=r"ops::FnMut::call_mut$", call=r"ops::FnMut::call_mut$", exact=True, start="entry",
         why="every recovered tombstone is offered to the dedup table: otherwise a deleted key whose entry is still on disk comes back after a restart"),
    # --- C12: a throttled disk lookup is remembered so that the origin's value is not written over a copy that may already be on disk
    dict(props=["C12"], body=r"re:^foyer::hybrid::cache::HybridCache::get(_or_fetch)?::\{closure#0\}::\{closure#0\}::\{closure#0\}$", inner_call=r"Store::<K, V, S, P>::load$", call=r"atomic::Atomic::<bool>::store$", exact=True, start=("arm", "Throttled"),
         why="Load::Throttled sets the context's throttled flag (read by the post-fetch enqueue guard)"),
    dict(props=["C12"], body=r"re:^" + re.escape(B) + r"::engine::BlockEngine::destroy::\{closure#0\}::\{closure#0\}::\{closure#0\}$", call=r"manager::BlockStatistics::reset$", exact=True, start="entry",
         why="destroy() starts every block's next generation with cleared statistics (the probation mark decides whether entries loaded from the block are rewritten)"),
    dict(props=["C12"], body=("foyer_storage::filter::StorageFilter", "with_condition"), call=r"Vec::<T, A>::push$", start="entry", why="a configured admission condition is kept"),
    # --- C08: the key is part of the stored entry
    dict(props=["C08"], body=("foyer_storage::serde::EntrySerializer", "serialize_key"), call=r"code::Code::encode$", start="entry",
         why="serialize_key encodes the key into the entry"),
    dict(props=["C08"], body=("foyer_storage::serde::EntrySerializer", "serialize"), call=r"EntrySerializer::serialize_key$|code::Code::encode$", start="entry_ok",
         why="the key is serialized after the value: a lookup compares the decoded key with the requested one"),
    # --- flusher main loop
    dict(props=["C01", "C04"], body="re:^" + re.escape(B) + r"::flusher::Runner::<K, V, P>::run::\{closure#0\}$|^" + re.escape(B) + r"::flusher::Runner::run::\{closure#0\}$", call=r"flusher::Runner::<K, V, P>::recv$", start=("ok", r"try_recv$"),
         why="every submission drained from the channel is handed to recv"),
    dict(props=["C01", "C15"], body="re:^" + re.escape(B) + r"::flusher::Runner::<K, V, P>::run::\{closure#0\}$|^" + re.escape(B) + r"::flusher::Runner::run::\{closure#0\}$", call=r"flusher::Runner::<K, V, P>::recv$", start=("count", 2),
         why="both receive points of the runner's loop (the non-blocking drain and the blocking select arm) hand the submission to recv: a submission dropped there loses an entry, a tombstone or a waiter (close() then never returns)"),
    dict(props=["C04", "C15"], body="re:^" + re.escape(B) + r"::flusher::Runner::<K, V, P>::run::\{closure#0\}$|^" + re.escape(B) + r"::flusher::Runner::run::\{closure#0\}$", call=r"VecDeque::<T, A>::push_back$", start=("after", r"flusher::Runner::<K, V, P>::submit_io_task$"),
         why="the io task of a submitted batch is queued for completion handling (index visibility, waiters, PieceRef release)"),
]


def _locate(F, e):
    b = e["body"]
    if isinstance(b, tuple):
        f = F.method(b[0], b[1], b[2]) if len(b) > 2 else F.method(b[0], b[1])
        cands = [f]
    else:
        rx = re.compile(b[3:])
        cands = [f for f in F.all_fns("P") if rx.search(f.short) and not f.short.endswith("::tests")]
        if e.get("inner_call"):
            cands = [f for f in cands if f.calls_to(e["inner_call"])]
        else:
            cands = cands if e.get("exact") else ([f for f in cands if f.calls_to(e["call"])] or cands)
    if not cands:
        raise AnchorMissing("must-call: body %s not found" % (b,))
    # an attribute macro (tracing) may have wrapped the body in a closure: descend while the obligation's call is only there
    out = []
    for f in cands:
        if not f.calls_to(e["call"]) and not e.get("exact"):
            inner = [g for g in F.descendants(f) if g.calls_to(e["call"])]
            if inner:
                f = inner[0]
        out.append(f)
    return out


def _starts(F, f, e):
    st = e["start"]
    if st == "entry":
        return [0], []
    if st == "entry_ok":
        # paths that end in an error return are exempt: blocks constructing an Err / calling from_residual are acceptable ends
        errs = [b.idx for b in f.calls_to(r"FromResidual<.*>>::from_residual$|FromResidual::from_residual$")] + \
               [b.idx for b in f.blocks if not b.cleanup for s in b.stmts if s.k == "assign" and s.rv.k == "agg" and s.rv.j.get("variant") == "Err"]
        return [0], errs
    kind, pat = st
    if kind in ("dominates", "count"):
        return None, []
    if kind == "agg":
        bl = [b.idx for b in f.blocks if not b.cleanup for s in b.stmts if s.k == "assign" and s.rv.k == "agg" and s.rv.j.get("adt") == pat]
        if not bl:
            raise AnchorMissing("must-call: no aggregate of %s built in %s" % (pat, f.short))
        return bl, []
    if kind == "arm":
        for (sb, pl, tm, other) in tables.discr_switches(f):
            if pat in tm:
                return [tm[pat]], []
        raise AnchorMissing("must-call: no match arm `%s` in %s" % (pat, f.short))
    srcs = f.calls_to(pat)
    if not srcs:
        raise AnchorMissing("must-call: start call /%s/ not found in %s" % (pat, f.short))
    if kind == "after":
        g = f.graph()
        return [x for b in srcs for x in g[b.idx] if not f.blocks[x].cleanup], []
    out = []
    for c in srcs:
        if kind == "ok":
            got = None
            for (sb, pl, tm, other) in tables.variant_switch_on(f, c.idx):
                for v in ("Some", "Ok", "Continue"):
                    if v in tm:
                        got = tm[v]
            if got is None:
                for tb in f.calls_to(r"ops::Try::branch$"):
                    if any(bb == c.idx for bb, _ in backslice(f, tb.term.args[0], "prov").calls):
                        for (sb, pl, tm, other) in tables.variant_switch_on(f, tb.idx):
                            got = tm.get("Continue", got)
            if got is None:
                raise AnchorMissing("must-call: the result of /%s/ is not matched in %s" % (pat, f.short))
            out.append(got)
        else:
            got = None
            for (swb, neg) in tables._bool_switches_on(f, c.idx):
                tt, ft = tables.bool_switch_targets(swb)
                if neg:
                    tt, ft = ft, tt
                got = tt if kind == "true" else ft
            if got is None:
                raise AnchorMissing("must-call: the bool result of /%s/ is not tested in %s" % (pat, f.short))
            out.append(got)
    return out, []


def run_for(chk, F, prop):
    ents = [e for e in ENTRIES if prop in e["props"]]
    if not ents:
        return

    def body(r, F):
        for e in ents:
            for f in _locate(F, e):
                calls = [b.idx for b in f.calls_to(e["call"])
                         if not e.get("arg_ty") or any(a.place is not None and re.search(e["arg_ty"], f.local_ty(a.place.local) or "") for a in b.term.args)]
                starts, ends = _starts(F, f, e)
                if starts is None and e["start"][0] == "count":
                    ok = len(calls) >= e["start"][1]
                elif starts is None:
                    tg = f.calls_to(e["start"][1])
                    ok = bool(calls) and bool(tg) and all(any(f.dominates(c, t.idx) for c in calls) for t in tg)
                else:
                    # a path that comes round to another start point (next loop iteration) without the call counts as missing it
                    again = [b.idx for b in f.calls_to(e["start"][1])] if isinstance(e["start"], tuple) and e["start"][0] in ("ok", "after", "true", "false") else []
                    ok = bool(calls)
                    g_ = f.graph()
                    for s0 in starts:
                        if isinstance(e["start"], tuple) and e["start"][0] == "agg":
                            # from the block that builds the value: leave it first, then coming back to any building block without the call counts as missing it
                            if s0 in calls:
                                continue
                            reach = f.reachable([x for x in g_[s0] if not f.blocks[x].cleanup], avoid=calls + ends)
                            ok = ok and not (set(f.returns() + starts) & reach)
                            continue
                        reach = f.reachable([s0], avoid=calls + ends)
                        ok = ok and not (set(f.returns() + again) & reach)
                what = "%s: %s from %s" % (f.short.rsplit("::", 2)[-2] + "::" + f.short.rsplit("::", 1)[-1] if "{closure" not in f.short else f.short.split("block::")[-1].split("foyer_memory::")[-1][:60],
                                           e["call"].split("|")[0].strip("$").rsplit("::", 1)[-1], e["start"] if isinstance(e["start"], str) else "%s(%s)" % (e["start"][0], str(e["start"][1]).split("|")[0].strip("$").rsplit("::", 1)[-1]))
                r.require(ok, f, what, e["why"], "a step every path needs is missing or conditional here — " + e["why"], ln=f.lo)
    chk.run_rule(prop + ".must-call", "steps that every path of the named bodies must take (instances found by the statement-deletion sweep, each confirmed by reading)", len(ents), body, F)
