"""C11 — an explicit insert is not overwritten by an older in-flight fetch (DESIGN.md §4 C11)."""
from sa import mir
from sa.mir import backslice

TITLE = "C11: close-flag aliasing, take closes, fetch task checks the flag before polling/inserting."
NOT_DECIDED = [
    "the residual race between the flag load and the fetch resolving within the same poll",
    "that waiting callers receive v (value flow through the oneshot channels)",
]

ENQ = "foyer_memory::inflight::InflightManager::enqueue"
TAKE = "foyer_memory::inflight::InflightManager::take"
FOT = "foyer_memory::inflight::InflightManager::fetch_or_take"


def close_alias(r, F):
    fn = F.fn(ENQ)
    stored, handed = [], []
    for b in fn.blocks:
        if b.cleanup:
            continue
        for s in b.stmts:
            if s.k == "assign" and s.rv.k == "agg":
                adt, var = s.rv.j.get("adt"), s.rv.j.get("variant")
                fields = dict(s.rv.agg_fields())
                if adt == "foyer_memory::inflight::Inflight" and "close" in fields:
                    stored.append((b.idx, s, fields["close"]))
                if adt == "foyer_memory::inflight::Enqueue" and var == "Lead" and "close" in fields:
                    handed.append((b.idx, s, fields["close"]))
    if not stored or not handed:
        raise mir.AnchorMissing("enqueue: construction of Inflight{close} / Enqueue::Lead{close} not found")
    for (_, ss, so) in stored:
        for (_, hs, ho) in handed:
            a = backslice(fn, so, "prov")
            b = backslice(fn, ho, "prov")
            sa = set(a.call_blocks(r"^std::sync::Arc::<T>::new$"))
            sb = set(b.call_blocks(r"^std::sync::Arc::<T>::new$"))
            common = sa & sb
            r.require(bool(common) and sa == sb, fn, "Inflight.close~Lead.close",
                      "both flags originate from the single Arc::new at line(s) %s" % fn.lines_of(common),
                      "the close flag stored in the in-flight table (Arc::new at line %s) and the one handed to the fetch task "
                      "(Arc::new at line %s) are different allocations: take()'s store(true) can never be seen by RawFetch::poll"
                      % (fn.lines_of(sa), fn.lines_of(sb)), ln=hs.ln)


def _store_true_blocks(fn):
    out = []
    for b in fn.calls_to(r"atomic::Atomic(Bool|::<bool>)::store$"):
        t = b.term
        # receiver must be a `close` field, value must be constant true
        sl = backslice(fn, t.args[0], "prov")
        v = t.args[1]
        if sl.has_field("close") and v.is_const() and v.const_val() == 1:
            out.append(b.idx)
    return out


def take_closes(r, F):
    for name in (TAKE, FOT):
        fn = F.fn(name)
        # the function and its closures (take() uses Option::map(|inflight| ...))
        bodies = [fn] + F.descendants(fn)
        stores = [(f, b) for f in bodies for b in _store_true_blocks(f)]
        if not stores:
            r.fail(fn, "close.store(true)", "no `close.store(true)` on the removed in-flight entry: a late fetch is never told to abandon its result")
            continue
        # every place the notifiers are moved out of the removed inflight must be dominated by the store
        n = 0
        for f in bodies:
            for b in f.blocks:
                if b.cleanup:
                    continue
                for i, s in enumerate(b.stmts):
                    if s.k == "assign" and s.rv.k == "use" and s.rv.ops[0].place is not None \
                            and s.rv.ops[0].kind == "move" and s.rv.ops[0].place.fields()[-1:] == ["notifiers"] \
                            and "foyer_memory::inflight::Inflight" in [o for o, _ in s.rv.ops[0].place.field_ofs()]:
                        n += 1
                        doms = [sb for (sf, sb) in stores if sf is f and f.dominates(sb, b.idx)]
                        r.require(bool(doms), f, "store-dom-notifiers",
                                  "close.store(true) (line %s) dominates handing out the notifiers" % f.lines_of(doms),
                                  "the notifiers of the removed in-flight entry are returned on a path that does not first set its close flag",
                                  ln=s.ln)
        if n == 0:
            r.fail(fn, "notifiers", "anchor missing: no move of `inflight.notifiers` found")


def fetch_checks(r, F):
    fn = F.method("foyer_memory::raw::RawFetch", "poll", "Future")
    polls = fn.calls_to(r"FutureExt::poll_unpin$")
    if len(polls) < 2:
        raise mir.AnchorMissing("RawFetch::poll: expected the optional and the required fetch to be polled (found %d poll_unpin)" % len(polls))
    loads = []
    for b in fn.calls_to(r"atomic::Atomic(Bool|::<bool>)::load$"):
        sl = backslice(fn, b.term.args[0], "prov")
        if sl.has_field("close"):
            loads.append(b)
    sinks = fn.calls_to(r"RawFetch::<E, S, I, C>::(handle_target)$") + fn.calls_to(r"insert")
    for p in polls:
        which = "required_fetch" if backslice(fn, p.term.args[0], "prov").has_field("required_fetch") else "optional_fetch"
        ok = False
        for l in loads:
            if not fn.dominates(l.idx, p.idx):
                continue
            # the switch on the load result: true edge must return Ready without reaching poll/handle_target
            for sw in mir.switch_on_call_result(fn, l.idx):
                tmap = dict((v, t) for v, t in sw.term.j["ts"])
                false_t = tmap.get(0)
                true_t = sw.term.j["else"]
                if false_t is None:
                    continue
                reach_true = fn.reachable([true_t], avoid=[sw.idx])
                bad = [s.idx for s in sinks + polls if s.idx in reach_true]
                # and the poll must be reachable only through the false edge
                guarded = fn.edge_guards(sw.idx, false_t, p.idx) or p.idx in fn.reachable([false_t], avoid=[sw.idx])
                if not bad and guarded and p.idx not in reach_true:
                    ok = True
        r.require(ok, fn, "close-checked-before:" + which,
                  "a load of self.close dominates poll_unpin; its true edge returns without polling or inserting",
                  "the %s future is polled (and its result inserted) without first testing the close flag" % which, ln=p.term.ln)


def waiters_get_inserted(r, F):
    """the waiters taken by an insert are sent a handle to the record that was just inserted (not to anything fetched)"""
    ii = F.fn("foyer_memory::raw::RawCache::insert_inner")
    sends = ii.calls_to(r"oneshot::Sender::<T>::send$")
    if not sends:
        raise mir.AnchorMissing("insert_inner: no send to the waiters found")
    for s in sends:
        sl = backslice(ii, s.term.args[1], "dep")
        ent = [st for _, st in sl.aggs if st.rv.j.get("adt") == "foyer_memory::raw::RawCacheEntry"]
        ok = False
        for st in ent:
            rec = dict(st.rv.agg_fields())["record"]
            ok = ok or (2 in backslice(ii, rec, "prov").args)
        oks = any(st.rv.j.get("variant") == "Ok" for _, st in sl.aggs)
        r.require(ok and oks, ii, "waiters receive Ok(entry of the inserted record)", "every waiter taken by the insert is answered with a handle to the inserted record",
                  "the waiters of an in-flight fetch taken over by an explicit insert are not answered with the inserted record", ln=s.term.ln)
    # and the in-flight entry is taken inside emplace, i.e. under the write lock that publishes the record (see C06.one-critical-section)
    em = F.method("foyer_memory::raw::RawCacheShard", "emplace")
    tk = em.calls_to(r"InflightManager::<E, S, I>::take$")
    r.require(len(tk) == 1 and em.must_pass(0, [tk[0].idx]), em, "emplace takes the in-flight entry on every path", "both the normal and the disk-only insert close a pending fetch",
              "a path of emplace publishes the record without taking (and closing) the in-flight fetch of the key", ln=em.lo)


def run(chk, F):
    chk.run_rule("C11.close-alias", "the close flag stored in the in-flight table and the one given to the fetch task are one allocation", 1, close_alias, F)
    from rules import C17
    chk.run_rule("C11.probe-eq", "the in-flight table (and every other probe) is looked up by full key equality: an insert takes over the fetch of ITS key only", 9, C17.probe_eq, F)
    chk.run_rule("C11.take-closes", "take / fetch_or_take set close=true before handing out the waiters", 2, take_closes, F)
    chk.run_rule("C11.waiters-get-inserted", "an insert answers the waiters it takes with the inserted record, on every path of emplace", 2, waiters_get_inserted, F)
    chk.run_rule("C11.fetch-checks", "RawFetch::poll tests the close flag before polling either fetch; closed => returns without inserting", 2, fetch_checks, F)
