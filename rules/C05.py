import re
"""C05 — memory usage accounting is exact and capacity-bounded without over-eviction (DESIGN.md §4 C05)."""
from sa import mir, tables
from sa.mir import backslice, AnchorMissing

TITLE = "C05: paired usage/entries accounting at every index mutation, evict-loop table, eviction target, resize, weight computed once."
NOT_DECIDED = [
    "numerical exactness of usage over arbitrary operation sequences (needs value reasoning)",
    "the remainder arithmetic of the shard capacity split (shard_capacity_for) summing to the configured capacity",
    "that handles held under LRU are the only reason a shard may stay above capacity",
]

SHARD = "foyer_memory::raw::RawCacheShard"
IDX = r"^foyer_memory::indexer::Indexer::(remove|insert|drain)$"
WEIGHT = r"^foyer_memory::record::Record::<E>::weight$"


def _shard_fns(F):
    return [f for f in F.all_fns("P") if f.crate.name == "foyer_memory" and f.self_ty and f.self_ty.startswith(SHARD) and f.kind == "assoc_fn"]


def _weight_of(fn, operand):
    """if `operand` is (a copy of) the result of Record::weight(recv): the prov-slice of recv, else None"""
    if operand is None or operand.place is None:
        return None
    sl = backslice(fn, operand, "prov")
    for b, t in sl.calls:
        if t.callee and mir.re.search(WEIGHT, t.callee):
            return backslice(fn, t.args[0], "prov")
    return None


def paired_accounting(r, F):
    n = 0
    for fn in _shard_fns(F):
        usage = tables.field_updates(fn, "usage", SHARD, 1)
        entries = tables.field_updates(fn, "entries", SHARD, 1)
        for cb in fn.calls_to(IDX):
            t = cb.term
            recv = backslice(fn, t.args[0], "prov")
            if not recv.has_field("indexer", SHARD):
                continue
            what = t.callee.rsplit("::", 1)[-1]
            n += 1
            nxt = t.j["to"]
            exits = fn.returns() + [cb.idx]
            sws = tables.variant_switch_on(fn, cb.idx)
            some_t, none_t, sw_idx = nxt, None, None
            for (sb, pl, tm, other) in sws:
                if "Some" in tm or "Continue" in tm:
                    some_t = tm.get("Some", tm.get("Continue"))
                    none_t = tm.get("None", tm.get("Break"))
                    sw_idx = sb.idx
                    break

            def blocks(lst, kind, pred=None):
                return [u["block"] for u in lst if u["kind"] == kind and (pred is None or pred(u))]

            def w_from(u, srcs):
                ws = _weight_of(fn, u["other"])
                if ws is None:
                    return False
                return any(b in srcs for b, _ in ws.calls) or bool(ws.args & srcs_args)

            srcs_args = set()
            if what == "remove":
                pops = {b.idx for b in fn.calls_to(r"^foyer_memory::eviction::Eviction::pop$")}
                srcs = {cb.idx} | pops
                ub = blocks(usage, "sub", lambda u: w_from(u, srcs))
                eb = blocks(entries, "sub", lambda u: u["other"] is not None and u["other"].const_val() == 1)
                ok_u = fn.must_pass(some_t, ub, exits)
                ok_e = fn.must_pass(some_t, eb, exits)
                r.require(ok_u, fn, "remove->usage-=weight(removed)", "every path after a successful Indexer::remove subtracts the removed record's weight from usage (lines %s)" % fn.lines_of(ub) if ub else "",
                          "a record is removed from the index on a path that does not subtract its weight from `usage`", ln=t.ln)
                r.require(ok_e, fn, "remove->entries-=1", "every path after a successful Indexer::remove decrements entries",
                          "a record is removed from the index on a path that does not decrement `entries`", ln=t.ln)
            elif what == "insert":
                if sw_idx is None or none_t is None:
                    r.fail(fn, "insert->switch", "anchor missing: result of Indexer::insert is not matched on Some/None", ln=t.ln)
                    continue
                argsl = backslice(fn, t.args[1], "prov")
                srcs_args = set(argsl.args)
                ub_old = blocks(usage, "sub", lambda u: w_from(u, {cb.idx}))
                ws_new = []
                for u in usage:
                    if u["kind"] != "add":
                        continue
                    ws = _weight_of(fn, u["other"])
                    if ws is not None and (ws.args & srcs_args):
                        ws_new.append(u["block"])
                eb_add = blocks(entries, "add", lambda u: u["other"] is not None and u["other"].const_val() == 1)
                r.require(fn.must_pass(some_t, ub_old, exits), fn, "insert:Some(old)->usage-=weight(old)",
                          "the replaced record's weight is subtracted on the Some edge",
                          "Indexer::insert returned the replaced record but its weight is not subtracted from `usage` on every path", ln=t.ln)
                r.require(fn.must_pass(none_t, eb_add, exits), fn, "insert:None->entries+=1", "entries incremented on the None edge",
                          "a new key is inserted on a path that does not increment `entries`", ln=t.ln)
                r.require(all(fn.edge_guards(sw_idx, none_t, b) for b in eb_add) and bool(eb_add), fn, "insert:Some->entries unchanged",
                          "entries is incremented only under the None edge", "`entries` is incremented on the replace (Some) path as well", ln=t.ln)
                r.require(fn.must_pass(nxt, ws_new, exits), fn, "insert->usage+=weight(new)", "the new record's weight is added on every path",
                          "a record is inserted on a path that does not add its weight to `usage`", ln=t.ln)
            elif what == "drain":
                def reset(u):
                    return (u["kind"] == "set" and u["other"] is not None and u["other"].const_val() == 0) or u["kind"] == "sub"
                ub = [u["block"] for u in usage if reset(u)]
                eb = [u["block"] for u in entries if reset(u)]
                r.require(fn.must_pass(nxt, ub, exits), fn, "drain->usage reset", "usage is reset after draining the index (lines %s)" % fn.lines_of(ub),
                          "the index is drained but `usage` is never reset: usage() stays at the old value after clear()", ln=t.ln)
                r.require(fn.must_pass(nxt, eb, exits), fn, "drain->entries reset", "entries is reset after draining the index",
                          "the index is drained but `entries` is never reset", ln=t.ln)
    if n == 0:
        raise AnchorMissing("no Indexer::{remove,insert,drain} call on RawCacheShard.indexer found")
    # who-may-write: usage / entries are written only in RawCacheShard methods
    for f in F.all_fns("P"):
        if f.crate.name != "foyer_memory":
            continue
        for fld in ("usage", "entries"):
            for u in tables.field_updates(f, fld, SHARD):
                inside = f.self_ty and f.self_ty.startswith(SHARD) and f.kind == "assoc_fn"
                r.require(bool(inside), f, "who-writes:" + fld, "written inside a RawCacheShard method",
                          "`%s` of RawCacheShard is written outside the shard's own methods (accounting bypass)" % fld, ln=u["ln"])


def evict_loop(r, F):
    fn = F.method(SHARD, "evict")
    found = tables.find_cmp(fn, tables.role_field("usage", SHARD), tables.role_arg(2), "comparison of self.usage with the target")
    pops = [b.idx for b in fn.calls_to(r"^foyer_memory::eviction::Eviction::pop$")]
    rems = [b.idx for b in fn.calls_to(r"^foyer_memory::indexer::Indexer::remove$")]
    if not pops or not rems:
        raise AnchorMissing("evict: Eviction::pop / Indexer::remove not found")
    for c, flipped in found:
        tab = tables.table(fn, c, flipped, pops)
        r.require(tab == ("no", "no", "yes"), fn, "usage?target->pop", "table (usage<target, =, >) -> pop: %s" % (tab,),
                  "eviction loop guard: expected to pop a victim exactly while usage > target, got table (usage<target,=,>) -> %s "
                  "(over-eviction if `=` pops, under-eviction if `>` does not)" % (tab,), ln=c.ln)
    # pop == None leaves the loop without touching the index
    for p in pops:
        for (sb, pl, tm, other) in tables.variant_switch_on(fn, p):
            nt = tm.get("None")
            if nt is None:
                continue
            reach = fn.reachable([nt], avoid=[p])
            r.require(not (set(rems) & reach), fn, "pop==None->exit", "None leaves the loop", "after Eviction::pop() == None the loop still removes from the index", ln=fn.blocks[p].term.ln)
    # exactly one Indexer::remove per iteration: every path from a Some(pop) to the loop head passes a remove
    for p in pops:
        for (sb, pl, tm, other) in tables.variant_switch_on(fn, p):
            st = tm.get("Some")
            if st is None:
                continue
            r.require(fn.must_pass(st, rems, fn.returns() + [p]), fn, "pop==Some->Indexer::remove",
                      "every popped victim is removed from the index", "a popped victim is not removed from the index on some path", ln=fn.blocks[p].term.ln)


def target(r, F):
    fn = F.method(SHARD, "emplace")
    evs = fn.calls_to(r"RawCacheShard::<E, S, I>::evict$")
    ins = [b.idx for b in fn.calls_to(r"^foyer_memory::indexer::Indexer::insert$")]
    if not evs or not ins:
        raise AnchorMissing("emplace: call of evict / Indexer::insert not found")
    for e in evs:
        sl = backslice(fn, e.term.args[1], "prov", extra_transparent=[r"saturating_sub$"])
        sat = [t for _, t in sl.calls if t.callee and t.callee.endswith("saturating_sub")]
        ok = False
        if sat:
            a0 = backslice(fn, sat[0].args[0], "prov")
            a1 = backslice(fn, sat[0].args[1], "prov")
            w = any(t.callee and mir.re.search(WEIGHT, t.callee) and (backslice(fn, t.args[0], "prov").args & {2}) for _, t in a1.calls)
            ok = a0.has_field("capacity", SHARD) and w
        r.require(ok, fn, "evict(capacity.saturating_sub(weight(new)))", "target = capacity - weight of the record being inserted",
                  "emplace does not evict down to capacity minus the new record's weight: the shard can end above capacity (or evicts too much)", ln=e.term.ln)
        r.require(all(fn.dominates(e.idx, i) for i in ins), fn, "evict-before-insert", "evict dominates Indexer::insert",
                  "the new record is inserted before room is made for it", ln=e.term.ln)


def resize(r, F):
    outer = F.fn("foyer_memory::raw::RawCache::resize")
    cands = [f for f in F.descendants(outer) if f.calls_to(r"^foyer_memory::eviction::Eviction::update$")]
    if not cands:
        raise AnchorMissing("resize: closure calling Eviction::update not found")
    for f in cands:
        bodies = [f] + F.descendants(f)
        caps = [(g, u) for g in bodies for u in tables.field_updates(g, "capacity", SHARD)]
        evs = [(g, b) for g in bodies for b in g.calls_to(r"RawCacheShard::<E, S, I>::evict$")]
        r.require(bool(caps), f, "capacity=new", "shard.capacity is assigned in the resize closure (line %s)" % [u["ln"] for _, u in caps],
                  "resize never stores the new shard capacity", ln=f.lo)
        r.require(bool(evs), f, "evict(new)", "evict is called after the algorithm accepted the new capacity", "resize never evicts down to the new capacity", ln=f.lo)
        for g, b in evs:
            # the evict target and the stored capacity are the same value: equal affine forms (memory-aware: a capacity read after the
            # store resolves to the stored value, one read before it to the old capacity)
            from sa import affine
            tform = affine.affine(g, b.term.args[1], depth=1, pos=(b.idx, len(g.blocks[b.idx].stmts)))
            cforms = [affine.store_form(g2, (u["block"], u["idx"], u["stmt"])) for g2, u in caps if g2 is g]
            same = any(cf is not None and cf == tform for cf in cforms)
            r.require(same, g, "evict-target==new-capacity", "evict target %s == stored capacity %s" % (affine.pretty(tform), [affine.pretty(x) for x in cforms]),
                      "resize evicts to `%s` but stores `%s` as the shard capacity" % (affine.pretty(tform), [affine.pretty(x) for x in cforms]), ln=b.term.ln)
            # unconditional: once the algorithm accepted the new capacity every path evicts down to it (growing can still have to
            # evict: a shard may legitimately sit above its old capacity — oversized entry, entries that were pinned)
            r.require(g.must_pass(0, [b.idx]), g, "evict(new) on every path", "the bound is re-established whether the capacity shrank or grew",
                      "resize evicts down to the new capacity only on some paths (e.g. only when shrinking): a shard that was legitimately over its old "
                      "capacity (oversized entry, formerly pinned entries) stays above the new one with nothing held", ln=b.term.ln)
            # store dominates evict
            r.require(any(g2 is g and g.pos_dominates((u["block"], u["idx"]), (b.idx, 10 ** 6)) for g2, u in caps), g, "capacity-before-evict",
                      "capacity stored before evicting", "resize evicts before updating the shard capacity", ln=b.term.ln)


def weight_once(r, F):
    # Data.weight is only ever written by the aggregate in insert_with_properties_inner, from the single weighter call
    n = 0
    for f in F.all_fns("P"):
        if not f.crate.name.startswith("foyer"):
            continue
        for b in f.blocks:
            if b.cleanup:
                continue
            for s in b.stmts:
                if s.k != "assign":
                    continue
                if s.rv.k == "agg" and s.rv.j.get("adt") == "foyer_memory::record::Data":
                    n += 1
                    fields = dict(s.rv.agg_fields())
                    sl = backslice(f, fields["weight"], "prov")
                    dyn = [t for _, t in sl.calls if t.callee and mir.re.search(r"ops::Fn(Mut|Once)?::call", t.callee)]
                    ok = False
                    if len(dyn) == 1:
                        recv = backslice(f, dyn[0].args[0], "prov")
                        ok = recv.has_field("weighter")
                    r.require(ok and f.short.endswith("RawCache::insert_with_properties_inner"), f, "Data.weight<-weighter(key,value)",
                              "weight comes from exactly one call of the configured weighter", "Data.weight is not the result of the single weighter call", ln=s.ln)
                fo = s.place.field_ofs()
                if fo and fo[-1] == ("foyer_memory::record::Data", "weight"):
                    r.fail(f, "Data.weight-write", "the weight of a live record is overwritten", ln=s.ln)
    if n == 0:
        raise AnchorMissing("no construction of record::Data found")
    w = F.method("foyer_memory::record::Record", "weight")
    ret = [s for b in w.blocks for s in b.stmts if s.k == "assign" and s.place.local == 0]
    ok = len(ret) == 1 and ret[0].rv.k == "use" and ret[0].rv.ops[0].place is not None and ret[0].rv.ops[0].place.field_ofs()[-1:] == [("foyer_memory::record::Data", "weight")]
    r.require(ok, w, "Record::weight==Data.weight", "returns the stored field", "Record::weight does not return the stored weight field", ln=w.lo)


def capacity_split(r, F):
    """construction and resize derive every shard capacity from the one split function, with (total, number of shards, shard index)"""
    scf = F.fn("foyer_memory::raw::RawCache::shard_capacity_for")
    # base + (index < remainder): the returned value depends on all three parameters
    sl = backslice(scf, 0, "dep")
    r.require({1, 2, 3} <= sl.args, scf, "shard_capacity_for(total, shards, index) uses all three", "quotient, remainder and index all contribute",
              "shard_capacity_for ignores one of total / shards / index", ln=scf.lo)
    divs = [s for b in scf.blocks for s in b.stmts if s.k == "assign" and s.rv.k == "bin" and s.rv.op in ("Div", "Rem")]
    r.require({s.rv.op for s in divs} == {"Div", "Rem"}, scf, "quotient and remainder", "total / shards and total % shards", "the split no longer uses quotient and remainder", ln=scf.lo)
    # exactly  total / shards + (index < total % shards): the shares add up to `total` only for this shape — no clamping (`max`, `min`, saturating ops) and no
    # other arithmetic may take part in the result
    ops = sorted({s_.rv.op for b in scf.blocks if not b.cleanup for s_ in b.stmts if s_.k == "assign" and s_.rv.k == "bin"})
    foreign = sorted({(b.term.callee or "?") for b in scf.calls() if not re.search(r"convert::(From::from|Into::into)$", b.term.callee or "")})
    allowed_ops = {"Div", "Rem", "Lt", "Gt", "Add", "AddWithOverflow", "AddUnchecked", "Eq", "Ne"}
    ret = backslice(scf, 0, "dep")
    r.require(not foreign and set(ops) <= allowed_ops and {"Div", "Rem"} <= set(ops) and bool({"Lt", "Gt"} & set(ops)), scf, "the split is exactly quotient + (index < remainder)",
              "operators %s, no other call than the bool->usize conversion" % ops,
              "shard_capacity_for is no longer `total / shards + (index < total %% shards)` (operators %s, calls %s): the shard capacities do not add up to the configured capacity, "
              "so the cache as a whole settles above (or below) it" % (ops, [x.rsplit("::", 2)[-2:] for x in foreign]), ln=scf.lo)
    for short in ("foyer_memory::raw::RawCache::new", "foyer_memory::raw::RawCache::resize"):
        f = F.fn(short)
        sites = [(g, b) for g in [f] + F.descendants(f) for b in g.calls_to(r"RawCache::<E, S, I>::shard_capacity_for$")]
        ok = len(sites) == 1
        if ok:
            g, b = sites[0]
            ok = 2 in backslice(g, b.term.args[2], "prov").args   # the index is the closure's parameter (the range element)
        r.require(ok, f, "%s splits with shard_capacity_for(total, shards, index)" % short.rsplit("::", 1)[-1], "one split function, index = the shard being built",
                  "%s does not derive each shard's capacity from shard_capacity_for(.., index)" % short, ln=f.lo)
    # the capacities computed are the ones installed: RawCacheShard.capacity in new(), shard.capacity in resize (C05.resize)
    new = F.fn("foyer_memory::raw::RawCache::new")
    aggs = [(g, s) for g in [new] + F.descendants(new) for b in g.blocks for s in b.stmts if s.k == "assign" and s.rv.k == "agg" and s.rv.j.get("adt") == SHARD]
    ok = False
    for g, s in aggs:
        fl = dict(s.rv.agg_fields())
        ok = 2 in backslice(g, fl["capacity"], "prov").args and fl["usage"].const_val() == 0 and fl["entries"].const_val() == 0
    r.require(ok, new, "new shard: capacity = its split share, usage = entries = 0", "a fresh shard starts empty with its share", "a fresh shard does not start with usage 0 / entries 0 / its capacity share", ln=new.lo)


def index_eviction_pairing(r, F):
    """the eviction container holds exactly the resident records that are not handed out: a record leaving the index is unlinked from the container whenever it
    is flagged in-eviction (on every path), a record entering the index is pushed, a drained index clears the container. Otherwise evict() later pops a record
    that is no longer resident (subtracting its weight a second time) or can never reach a resident one (usage stays above capacity)"""
    SH = "foyer_memory::raw::RawCacheShard"
    n = 0
    for name in ("emplace", "remove"):
        f = F.method(SH, name)
        for c in f.calls_to(r"indexer::Indexer::(remove|insert)$"):
            some = None
            for (sb, pl, tm, other) in tables.variant_switch_on(f, c.idx):
                if "Some" in tm:
                    some = tm["Some"]
            if some is None:
                # `?` on the lookup result: the Continue edge
                for tb in f.calls_to(r"ops::Try::branch$"):
                    if any(bb == c.idx for bb, _ in backslice(f, tb.term.args[0], "prov").calls):
                        for (sb, pl, tm, other) in tables.variant_switch_on(f, tb.idx):
                            some = tm.get("Continue", some)
            if some is None:
                r.fail(f, "index result", "the result of %s is not inspected" % c.term.callee.rsplit("::", 1)[-1], ln=c.term.ln)
                continue
            n += 1
            rms = [b for b in f.calls_to(r"eviction::Eviction::remove$") if any(bb == c.idx for bb, _ in backslice(f, b.term.args[1], "prov").calls)]
            flag = [b for b in f.calls_to(r"Record::<E>::is_in_eviction$") if any(bb == c.idx for bb, _ in backslice(f, b.term.args[0], "prov").calls) and b.idx in f.reachable([some])]
            skip = []
            for fb in flag:
                for (swb, neg) in tables._bool_switches_on(f, fb.idx):
                    tt, ft = tables.bool_switch_targets(swb)
                    if neg:
                        tt, ft = ft, tt
                    if any(f.edge_guards(swb.idx, tt, x.idx) for x in rms):
                        skip.append((swb.idx, ft))
            ok = bool(rms) and bool(skip) and f.must_pass(some, [b.idx for b in rms], avoid_edges=skip)
            r.require(ok, f, "%s: record leaving the index (%s) is unlinked if in-eviction" % (name, c.term.callee.rsplit("::", 1)[-1]), "if old.is_in_eviction() { eviction.remove(&old) } on every path of the Some edge",
                      "RawCacheShard::%s takes a record out of the index without unlinking it from the eviction container when it is flagged in-eviction: evict() later pops a record that already left "
                      "(its weight is subtracted twice and a second leave notification is produced)" % name, ln=c.term.ln)
    em = F.method(SH, "emplace")
    ins = em.calls_to(r"indexer::Indexer::insert$")
    pu = em.calls_to(r"eviction::Eviction::push$")
    ok = len(ins) == 1 and len(pu) == 1 and em.must_pass(ins[0].idx, [pu[0].idx]) and 2 in backslice(em, pu[0].term.args[1], "prov", extra_transparent=[r"Clone::clone$"]).args and \
        2 in backslice(em, ins[0].term.args[1], "prov", extra_transparent=[r"Clone::clone$"]).args
    n += 1
    r.require(ok, em, "emplace: indexed record is pushed to the eviction container", "Indexer::insert(record) is followed by Eviction::push(record) on every path",
              "RawCacheShard::emplace indexes a record without pushing it to the eviction container on every path: the entry can never be evicted and usage stays above capacity", ln=em.lo)
    cl = F.method(SH, "clear")
    dr = cl.calls_to(r"indexer::Indexer::drain$")
    ec = cl.calls_to(r"eviction::Eviction::clear$")
    n += 1
    r.require(len(dr) == 1 and len(ec) == 1 and cl.must_pass(0, [ec[0].idx]), cl, "clear: container cleared with the index", "Eviction::clear on every path", "RawCacheShard::clear drains the index without clearing the eviction container", ln=cl.lo)
    if n < 5:
        r.fail(None, "sites", "only %d index/eviction pairing sites (5 confirmed)" % n)


def run(chk, F):
    chk.run_rule("C05.paired-accounting", "every index mutation of a shard is matched by the usage and entries updates on every path; only shard methods write them", 12, paired_accounting, F)
    chk.run_rule("C05.evict-loop", "evict pops exactly while usage > target, stops on an empty container, removes every victim from the index", 3, evict_loop, F)
    chk.run_rule("C05.target", "emplace evicts to capacity - weight(new) before inserting", 2, target, F)
    chk.run_rule("C05.resize", "resize stores the new shard capacity and evicts down to that same value on every path", 5, resize, F)
    chk.run_rule("C05.capacity-split", "construction and resize derive shard capacities from the one quotient/remainder split by shard index; fresh shards start empty", 5, capacity_split, F)
    chk.run_rule("C05.weight-once", "an entry's weight is computed once by the weighter and never rewritten", 2, weight_once, F)
    chk.run_rule("C05.index-eviction-pairing", "records leaving the index are unlinked from the eviction container when flagged; indexed records are pushed; clear clears both", 5, index_eviction_pairing, F)
    from rules import mustcall
    mustcall.run_for(chk, F, "C05")
