"""rule bodies shared by several properties"""
import re

from sa import mir, tables
from sa.mir import backslice, AnchorMissing

LOAD = "foyer_storage::engine::Load"


def store_load(F):
    outer = F.fn("foyer_storage::store::Store::load")
    cs = [c for c in F.children(outer) if c.kind == "coroutine"]
    if len(cs) != 1:
        raise AnchorMissing("Store::load async body not found")
    return cs[0]


def _key_upvars(F):
    """names under which the async body of Store::load captures its `key` parameter (parameter 2 of the outer fn)"""
    outer = F.fn("foyer_storage::store::Store::load")
    names = set()
    for b in outer.blocks:
        for s in b.stmts:
            if s.k == "assign" and s.rv.k == "agg" and s.rv.j.get("ak") == "coroutine":
                for (n, o) in s.rv.agg_fields():
                    if o.place is not None and 2 in backslice(outer, o, "prov").args:
                        names.add(n)
    return names or {"key"}


def key_guard(r, F):
    """every Load::Entry / Load::Piece built from what the engine loaded is control-dependent on the true edge of
    Equivalent::equivalent(requested key, loaded key)"""
    fn = store_load(F)
    eng = fn.calls_to(r"^foyer_storage::engine::Engine::load$")
    if len(eng) != 1:
        raise AnchorMissing("Store::load: expected exactly one Engine::load call (found %d)" % len(eng))
    eb = eng[0].idx
    after = fn.reachable([eb])
    eqs = []
    for b in fn.calls_to(r"^equivalent::Equivalent::equivalent$"):
        a0 = backslice(fn, b.term.args[0], "prov")
        a1 = backslice(fn, b.term.args[1], "prov", extra_transparent=[r"Piece::<K, V, P>::key$"])
        requested = bool(a0.upvars & _key_upvars(F))
        loaded = any(bb == eb for bb, _ in a1.calls)
        if requested and loaded:
            for (swb, neg) in tables._bool_switches_on(fn, b.idx):
                tt, ft = tables.bool_switch_targets(swb)
                if neg:
                    tt, ft = ft, tt
                eqs.append((swb.idx, tt, b))
    n = 0
    for b in fn.blocks:
        if b.cleanup or b.idx not in after:
            continue
        for s in b.stmts:
            if s.k == "assign" and s.rv.k == "agg" and s.rv.j.get("adt") == LOAD and s.rv.j.get("variant") in ("Entry", "Piece"):
                n += 1
                guarded = any(fn.edge_guards(sw, tt, b.idx) for (sw, tt, _) in eqs)
                flds = dict(s.rv.agg_fields())
                payload = flds.get("key") or flds.get("piece")
                from_engine = payload is not None and any(bb == eb for bb, _ in backslice(fn, payload, "prov").calls)
                r.require(guarded and from_engine, fn, "Load::%s after Engine::load guarded by key equality" % s.rv.j["variant"],
                          "a disk hit is handed out only on the true edge of key.equivalent(loaded key) (line %s)" % sorted({e[2].term.ln for e in eqs}),
                          "a Load::%s built from the engine's result is not control-dependent on the requested key being equivalent to the "
                          "loaded key: a hash collision or a misdirected read returns another key's value" % s.rv.j["variant"], ln=s.ln)
    if n < 2:
        r.fail(fn, "hit-sites", "expected the Entry and the Piece hit to be rebuilt after Engine::load (found %d)" % n)
    # the not-equivalent edges return Load::Miss
    for (sw, tt, b) in eqs:
        tt2, ft = tables.bool_switch_targets(fn.blocks[sw])
        other = ft if tt == tt2 else tt2
        reach = fn.reachable([other])
        hits = [blk for blk in reach for s in fn.blocks[blk].stmts if s.k == "assign" and s.rv.k == "agg" and s.rv.j.get("adt") == LOAD and s.rv.j.get("variant") in ("Entry", "Piece")
                and not any(fn.edge_guards(sw2, t2, blk) for (sw2, t2, _) in eqs)]
        r.require(not hits, fn, "key mismatch -> no hit", "the mismatch edge cannot reach an unguarded hit", "a key mismatch can still produce a hit", ln=b.term.ln)


def load_order(r, F):
    fn = store_load(F)
    kg = fn.calls_to(r"^foyer_storage::keeper::Keeper::<K, V, P>::get$")
    eng = fn.calls_to(r"^foyer_storage::engine::Engine::load$")
    if len(kg) != 1 or len(eng) != 1:
        raise AnchorMissing("Store::load: Keeper::get / Engine::load not found exactly once")
    r.require(fn.dominates(kg[0].idx, eng[0].idx), fn, "Keeper::get dom Engine::load", "the write queue is consulted before the disk index",
              "the disk index is consulted without first looking in the write queue (keeper): a queued newer version is shadowed by the older disk copy", ln=eng[0].term.ln)
    ok = False
    for (sb, pl, tm, other) in tables.variant_switch_on(fn, kg[0].idx):
        st = tm.get("Some")
        if st is None:
            continue
        reach = fn.reachable([st], avoid=[sb.idx])
        builds_piece = any(s.k == "assign" and s.rv.k == "agg" and s.rv.j.get("adt") == LOAD and s.rv.j.get("variant") == "Piece" for b in reach for s in fn.blocks[b].stmts)
        ok = builds_piece and eng[0].idx not in reach
    r.require(ok, fn, "keeper hit returns Load::Piece", "a write-queue hit is returned as Load::Piece and never goes to the engine",
              "a write-queue (keeper) hit does not short-circuit the disk lookup", ln=kg[0].term.ln)
    # the keeper probe uses the hash of the requested key
    h = fn.calls_to(r"BuildHasher::hash_one$")
    r.require(len(h) == 1 and any(bb == h[0].idx for bb, _ in backslice(fn, kg[0].term.args[1], "prov").calls) and
              any(bb == h[0].idx for bb, _ in backslice(fn, eng[0].term.args[1], "prov").calls), fn, "one hash for keeper and engine",
              "keeper and engine are probed with the single hash_one(key)", "keeper / engine are probed with different hashes", ln=fn.lo)


IO_CALL = r"manager::Block::(read|write)$|io::engine::IoEngine::(read|write)$|IoEngine>::(read|write)$"


def io_result_checked(r, F):
    """every device read / write of the block engine and the tombstone log returns `(buffer, Result)`: in each body the Result of every such call is taken out of
    the tuple and propagated with `?`, matched, or handed on to the caller — never dropped unseen (a failed write must not be indexed / acknowledged, a failed
    read must not be decoded)"""
    from sa import flow

    def fate(f, X):
        def sink(g, s_, idx, kind):
            if kind == "call" and s_.callee and re.search(r"ops::Try::branch$", s_.callee) and idx == 0:
                return "try"
            return None
        fl = flow.forward(F, f, [X], sink=sink)
        if fl.sinks:
            # the `?` is reached on every path from the point where the Result was taken out of the tuple
            src = [b.idx for b in f.blocks if not b.cleanup for st in b.stmts if st.k == "assign" and st.place.is_local() and st.place.local == X]
            trys = [blk for (g, blk, d, term) in fl.sinks if g is f]
            if src and trys and all(f.must_pass(s0, trys) for s0 in src):
                return "propagated with ?"
            return None
        if fl.returned:
            return "returned"
        moved = {X}
        grew = True
        while grew:
            grew = False
            for b in f.blocks:
                for st in b.stmts:
                    if st.k == "assign" and st.place.is_local() and st.rv.k == "use" and st.rv.ops[0].place is not None and st.rv.ops[0].place.is_local() \
                            and st.rv.ops[0].place.local in moved and st.place.local not in moved:
                        moved.add(st.place.local)
                        grew = True
        for b in f.blocks:
            if b.cleanup:
                continue
            if b.term.k == "switch" and b.term.discr.place is not None and moved & backslice(f, b.term.discr, "prov").locals:
                return "matched"
            for st in b.stmts:
                if st.k == "assign" and st.rv.k == "agg" and any(o.place is not None and o.place.is_local() and o.place.local in moved for o in st.rv.ops):
                    return "handed on in the result"
        return None
    n = 0
    for f in F.all_fns("P"):
        if f.crate.name != "foyer_storage" or "::tests::" in f.short or "test_utils" in f.file or f.file.startswith("/") or not re.search(r"engine/block/", f.file):
            continue
        calls = f.calls_to(IO_CALL)
        if not calls:
            continue
        xs = [st for b in f.blocks if not b.cleanup for st in b.stmts if st.k == "assign" and st.rv.k == "use" and st.rv.ops[0].place is not None and st.rv.ops[0].place.proj
              and st.place.is_local() and (f.local_ty(st.place.local) or "").startswith("std::result::Result<") and "IoB" in (f.local_ty(st.rv.ops[0].place.local) or "")
              and (f.local_ty(st.rv.ops[0].place.local) or "").startswith("(")]
        fates = [(st.ln, fate(f, st.place.local)) for st in xs]
        good = [x for x in fates if x[1]]
        n += len(calls)
        r.require(len(good) >= len(calls) and len(good) == len(fates), f, "io results checked (%d call(s))" % len(calls), "each device call's Result is %s" % ", ".join(sorted({x[1] for x in good})),
                  "%d device read/write call(s) but %d checked Result(s) %s: the outcome of an io is dropped unseen — a failed write is treated as durable (its entries are indexed / the tombstone is "
                  "acknowledged), a failed read is decoded as if it had succeeded" % (len(calls), len(good), fates), ln=calls[0].term.ln)
    if n < 11:
        r.fail(None, "sites", "only %d device calls found in the block engine (11 confirmed)" % n)
