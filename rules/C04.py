"""C04 — recovery after a crash at any point is consistent (DESIGN.md §4 C04)."""
import re

from sa import mir, tables, asyncs, affine
from sa.mir import backslice, AnchorMissing
from rules import common
from rules import C01, C03, C09, C10

TITLE = ("C04: order of the two device writes of a blob (data, then the index page that makes it visible), index update only after successful writes, "
         "tombstones logged in the batch's io task, acknowledgement only on completion, recovery tables, reclaim order.")
NOT_DECIDED = [
    "enumeration of crash points and torn writes (only the order and error propagation of the writes are decided)",
    "durability: the psync engine never syncs (observation); what the device persists of an acknowledged write is outside the code",
    "behaviour once blocks have been reclaimed",
]

B = "foyer_storage::engine::block"
RUN = B + "::flusher::Runner"


def _blob_writer(F):
    sub = F.method(RUN, "submit_io_task")
    cs = [f for f in F.descendants(sub) if f.kind == "coroutine" and len(f.calls_to(r"manager::Block::write$")) >= 2]
    if len(cs) != 1:
        raise AnchorMissing("submit_io_task: the per-blob write future (two Block::write calls) was not found")
    return sub, cs[0]


def data_before_index(r, F):
    sub, f = _blob_writer(F)
    ws = f.calls_to(r"manager::Block::write$")
    def role(b):
        sl = backslice(f, b.term.args[1], "prov")
        if "data" in sl.upvars:
            return "data"
        if "index" in sl.upvars:
            return "index"
        tys = " ".join(f.local_ty(l) for l in sl.locals)
        return "data" if "IoSlice>" in tys and "IoSliceMut" not in tys else ("index" if "IoSliceMut" in tys else "?")
    roles = {}
    for b in ws:
        roles.setdefault(role(b), []).append(b)
    if set(roles) != {"data", "index"} or len(roles["data"]) != 1:
        raise AnchorMissing("per-blob write future: the data write and the index write(s) could not be told apart (%s)" % {k: len(v) for k, v in roles.items()})
    d = roles["data"][0]
    tr = asyncs.awaited_try(F, f, d.idx)
    for ix in roles["index"]:
        # the index write is first polled only after the data write's future completed and its result was `?`-propagated
        ipolls = [b.idx for b in f.calls_to(r"Future::poll$") if any(bb == ix.idx for bb, _ in backslice(f, b.term.args[0], "prov").calls)]
        ok = bool(tr) and bool(ipolls) and all(ct is not None and all(f.edge_guards(swb, ct, p) for p in ipolls) and f.edge_guards(swb, ct, ix.idx) for (_, ct, _, swb) in tr)
        r.require(ok, f, "data write `?` dom index write", "the blob's index page is written only after its data was written successfully",
                  "the blob index page (which makes the blob's entries visible to recovery) can be written before / regardless of the data write: after a crash "
                  "recovery indexes entries whose bytes never reached the device", ln=ix.term.ln)
    ix = roles["index"][-1]
    tr2 = asyncs.awaited_try(F, f, ix.idx)
    r.require(bool(tr2), f, "index write result propagated", "a failed index write fails the blob", "the result of the index page write is dropped", ln=ix.term.ln)
    # offsets: data at blob_block_offset + part_blob_offset (the closure's `offset` upvar), index at blob_block_offset
    osl = backslice(f, ix.term.args[2], "prov")
    dsl = backslice(f, d.term.args[2], "prov")
    r.require("blob_block_offset" in osl.upvars and "offset" in dsl.upvars, f, "index at blob start, data at blob start + part offset", "index: %s, data: %s" % (sorted(osl.upvars), sorted(dsl.upvars)),
              "the index page / data are written at the wrong offsets (index %s, data %s)" % (sorted(osl.upvars), sorted(dsl.upvars)), ln=ix.term.ln)
    # both writes target the same block
    r.require(bool(backslice(f, d.term.args[0], "prov").upvars & backslice(f, ix.term.args[0], "prov").upvars), f, "same block for data and index", "one block handle", "data and index go to different blocks", ln=d.term.ln)


def visible_after_write(r, F):
    C01.queue_release(r, F)


def tombstone_same_task(r, F):
    sub = F.method(RUN, "submit_io_task")
    tf = [f for f in F.descendants(sub) if f.kind == "coroutine" and f.calls_to(r"tombstone::TombstoneLog::append$")]
    if len(tf) != 1:
        raise AnchorMissing("submit_io_task: the future appending to the tombstone log was not found")
    t = tf[0]
    ap = t.calls_to(r"tombstone::TombstoneLog::append$")[0]
    r.require(bool(asyncs.awaited_try(F, t, ap.idx)), t, "TombstoneLog::append(..).await?", "a failed log append fails the io task", "the result of appending tombstones to the log is dropped", ln=ap.term.ln)
    # every tombstone of the batch is appended: the iterator handed to append is the whole `tombstone_infos` (mapped to the tombstone),
    # not a filtered / truncated view — "not indexed yet" does not mean "nothing on its way to disk"
    asl = backslice(t, ap.term.args[1], "prov", extra_transparent=[r"iter::Iterator::\w+$", r"slice::<impl \[T\]>::iter$", r"\[T\]>::iter$", r"Vec::<T, A>::iter$", r"Deref::deref$"])
    adaptors = sorted({tt.callee.rsplit("::", 1)[-1] for _, tt in asl.calls if tt.callee and re.search(r"iter::Iterator::\w+$", tt.callee)})
    bad = [a for a in adaptors if a not in ("map", "cloned", "copied", "by_ref", "into_iter", "rev", "inspect", "chain", "enumerate", "peekable")]
    whole = bool(asl.upvars & mir.upvars_from_param(F, t, 0)) or any("tombstone" in u for u in asl.upvars)
    r.require(not bad and whole, t, "append receives every tombstone of the batch", "iterator adaptors between tombstone_infos and append: %s" % adaptors,
              "only a filtered / truncated part of the batch's tombstones is appended to the log (%s): a delete acknowledged as flushed is not durable, and after a restart the deleted "
              "value is readable again" % bad, ln=ap.term.ln)
    # that future and the block writes are joined into the single spawned task
    tj = sub.calls_to(r"future::try_join$|try_join::try_join$|::try_join$")
    sp = sub.calls_to(r"spawn::Spawner::spawn$")
    ok = False
    if tj and sp:
        args = backslice(sub, sp[0].term.args[1], "dep")
        joined = backslice(sub, tj[0].term.args[1], "prov")
        ok = any(bb == tj[0].idx for bb, _ in args.calls) and any(s.rv.j.get("def") == t.id for _, s in joined.aggs)
    r.require(ok, sub, "tombstone append joined with the block writes in the spawned task", "one io task per batch carries both the entry writes and the tombstone append",
              "tombstones are no longer appended in the io task of the batch they belong to", ln=sub.lo)
    # the flush acknowledgement and the removal of tombstone markers happen only on completion
    hic = F.method(RUN, "handle_io_complete")
    for pat, what in ((r"oneshot::Sender::<T>::send$", "flush acknowledgement (waiters)"), (r"indexer::Indexer::remove_batch$", "removal of the tombstone markers from the index")):
        here = hic.calls_to(pat)
        elsewhere = [(f, b) for f in F.all_fns("P") if f.file.endswith("flusher.rs") and f.root != hic.id and f is not hic for b in f.calls_to(pat)
                     if pat.startswith("indexer") or "()" in " ".join(f.callee_generics(b.term))]
        r.require(bool(here) and not elsewhere, hic, what + " only in handle_io_complete", "performed after the io task of the batch finished",
                  "%s also happens outside handle_io_complete (%s): a flush is acknowledged before its writes completed" % (what, [x[0].short for x in elsewhere]), ln=hic.lo)
    # handle_io_complete is reached from the completion arm of the runner's select loop only
    run = F.fn(RUN + "::run::{closure#0}")
    calls = [(g, b) for g in [run] + F.descendants(run) for b in g.calls_to(r"Runner::<K, V, P>::handle_io_complete$")]
    r.require(len(calls) == 1, run, "one completion site", "handle_io_complete is called from exactly one place (the completed io task)", "handle_io_complete is called from %d places" % len(calls), ln=run.lo)
    if calls:
        g, b = calls[0]
        sl = backslice(g, b.term.args[1], "dep")
        r.require(sl.has_field("piece_refs") or "piece_refs" in sl.upvars or any("IoTaskCtx" in g.local_ty(l) for l in sl.locals), g, "completion context feeds handle_io_complete",
                  "its arguments come from the finished task's context", "handle_io_complete is not fed from the finished io task's context", ln=b.term.ln)


def run(chk, F):
    chk.run_rule("C04.data-before-index", "per blob: data write, error propagated, then the index page at the blob start", 4, data_before_index, F)
    chk.run_rule("C04.visible-after-write", "the in-memory index is updated only after the block's writes succeeded, before the write-queue references are released", 4, visible_after_write, F)
    chk.run_rule("C04.tombstone-same-task", "tombstones are appended (error propagated) in the batch's io task; acknowledgement and marker removal only on completion", 6, tombstone_same_task, F)
    chk.run_rule("C04.seq-tables", "recovery keeps the highest sequence per hash; a regressing sequence ends a block's scan", 4, C01.seq_tables, F)
    chk.run_rule("C04.seq-restore", "recovery restarts the sequence counter strictly above every recovered entry and tombstone", 4, C01.seq_restore, F)
    chk.run_rule("C04.blob-index", "a damaged blob index ends the scan of the block", 3, C03.blob_index, F)
    chk.run_rule("C04.recover-mode", "recover mode table on scanner error", 3, C03.recover_mode, F)
    chk.run_rule("C04.tombstone-tail", "the tombstone log's recovered append position depends on partition, page and slot of the newest tombstone", 3, C10.tail_position, F)
    chk.run_rule("C04.tombstone-slot", "every branch computing the newest tombstone's slot is affine-equal to offset / SERIALIZED_LEN", 2, C10.slot_of_offset, F)
    chk.run_rule("C04.tombstone-append", "append writes at the tail, advances it, flushes on page change and before returning", 6, C10.append, F)
    chk.run_rule("C04.reclaim-order", "reclaim: index entries removed, block cleaned (first page zeroed), then released", 4, C09.release_raii, F)
    chk.run_rule("C04.io-result-checked", "the Result of every device read / write in the block engine is propagated, matched or handed on — never dropped", 9, common.io_result_checked, F)
    from rules import mustcall
    mustcall.run_for(chk, F, "C04")
