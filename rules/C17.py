"""C17 — hash collisions between distinct keys never alias their entries (DESIGN.md §4 C17)."""
import re

from sa import mir, tables, flow
from sa.mir import backslice, AnchorMissing
from rules import common

TITLE = "C17: every hash-table probe compares full keys; the disk tier's key check guards every hit; one hash per operation."
NOT_DECIDED = [
    "behaviour over histories with restarts (which of two colliding keys survives on disk is by design: the later write)",
    "the user's Eq/Hash/Equivalent implementations being consistent",
]

PROBE = r"^hashbrown::(HashTable|hash_table::HashTable)::<T, A>::(entry|find|find_entry|find_mut)$"
KEY_ACCESS = [r"::key$", r"Record::<E>::key$", r"Piece::<K, V, P>::key$"]


def _is_key_of(fn, op, want_param):
    """op denotes (a borrow of) the key of closure parameter 2 (want_param) or of an upvar (not want_param)"""
    sl = backslice(fn, op, "prov", extra_transparent=KEY_ACCESS)
    via_key = sl.has_field("key") or any(t.callee and re.search(r"::key$", t.callee) for _, t in sl.calls)
    from_param = 2 in sl.args
    from_upvar = bool(sl.upvars)
    return via_key, from_param, from_upvar


def probe_eq(r, F):
    n = 0
    for f in F.all_fns("P"):
        if not f.crate.name.startswith("foyer"):
            continue
        for b in f.calls_to(PROBE):
            n += 1
            t = b.term
            cdef = flow._closure_def_of(f, t.args[2], F.P)
            if cdef is None or cdef not in F.P:
                r.fail(f, "eq-closure", "the equality closure of the probe could not be resolved", ln=t.ln)
                continue
            c = F.P[cdef]
            # the closure may answer `true` only with the verdict of a key comparison: every definition of its result is either
            # such a comparison, the constant false (a conjunction's short circuit), or a copy of one of those
            def key_cmp(tt):
                if not (tt.callee and re.search(r"Equivalent::equivalent$|cmp::PartialEq::eq$", tt.callee)):
                    return False
                k0 = _is_key_of(c, tt.args[0], True)
                k1 = _is_key_of(c, tt.args[1], True)
                return bool((k0[0] and k0[1] and k1[2] and not k1[1]) or (k1[0] and k1[1] and k0[2] and not k0[1]))
            ok, seen_cmp, work, visited = True, False, [0], set()
            while work:
                l = work.pop()
                if l in visited:
                    continue
                visited.add(l)
                ds = [d for d in c.defs().get(l, []) if not c.blocks[d[0]].cleanup]
                if not ds:
                    ok = False
                for (bb, i, kind, payload) in ds:
                    if kind == "call":
                        if key_cmp(payload):
                            seen_cmp = True
                        else:
                            ok = False
                    elif kind == "assign":
                        rv = payload.rv
                        if rv.k == "use" and rv.ops[0].is_const():
                            if rv.ops[0].const_val() != 0:
                                ok = False      # `true` without comparing keys (e.g. `hash == h || key == k`)
                        elif rv.k == "use" and rv.ops[0].place is not None and rv.ops[0].place.is_local():
                            work.append(rv.ops[0].place.local)
                        else:
                            ok = False
                    else:
                        ok = False
            ok = ok and seen_cmp
            r.require(ok, f, "probe compares keys (%s)" % t.callee.rsplit("::", 1)[-1],
                      "the probe's eq closure compares the probed element's key with the looked-up key",
                      "the probe's equality closure does not compare the probed element's KEY with the looked-up key: two keys with the same "
                      "64-bit hash alias each other", ln=t.ln)
            if t.callee.endswith("::entry") and len(t.args) > 3:
                hdef = flow._closure_def_of(f, t.args[3], F.P)
                hok = False
                if hdef in F.P:
                    h = F.P[hdef]
                    hs = backslice(h, 0, "prov", extra_transparent=[r"::hash$"])
                    hok = 2 in hs.args and (hs.has_field("hash") or any(tt.callee and tt.callee.endswith("::hash") for _, tt in hs.calls))
                r.require(hok, f, "rehash closure returns the element's stored hash", "the table rehashes with the stored hash",
                          "the rehash closure does not return the element's own hash: entries move to wrong buckets on growth", ln=t.ln)
    if n < 9:
        r.fail(None, "sites", "only %d hashbrown probe sites found (9 confirmed on the pinned tree)" % n)


def hash_once(r, F):
    RC = "foyer_memory::raw::RawCache"
    for name in ("get", "remove", "contains", "get_or_fetch_inner", "insert_with_properties_inner"):
        f = F.fn(RC + "::" + name)
        hs = f.calls_to(r"BuildHasher::hash_one$")
        r.require(len(hs) == 1, f, "one hash_one", "the key is hashed once", "the key is hashed %d times in one operation (shard choice and probe may disagree)" % len(hs), ln=f.lo)
        if len(hs) != 1:
            continue
        hb = hs[0].idx
        # every RawCache::shard(hash) call in the function and its closures uses that hash
        bodies = [f] + F.descendants(f)
        bad = []
        cnt = 0
        for g in bodies:
            for b in g.calls_to(r"RawCache::<E, S, I>::shard$"):
                cnt += 1
                sl = backslice(g, b.term.args[1], "prov")
                if g is f:
                    okk = any(bb == hb for bb, _ in sl.calls)
                else:
                    # the closure's upvar must capture (a borrow of) the one hash computed in the enclosing function
                    okk = False
                    cur, ups = g, set(sl.upvars)
                    for _ in range(4):
                        srcs = mir.upvar_sources(F, cur)
                        nxt = set()
                        for u in ups:
                            if u in srcs:
                                par, o = srcs[u]
                                psl = backslice(par, o, "prov")
                                if par is f and any(bb == hb for bb, _ in psl.calls):
                                    okk = True
                                nxt |= psl.upvars
                                cur2 = par
                        if okk or not nxt:
                            break
                        cur, ups = cur2, nxt
                if not okk:
                    bad.append(b.term.ln)
        if name != "insert_with_properties_inner":
            r.require(cnt > 0 and not bad, f, "shard(hash) uses the one hash", "shard selection uses the operation's hash",
                      "shard selection does not use the hash computed from the key (lines %s)" % bad, ln=f.lo)


def run(chk, F):
    chk.run_rule("C17.probe-eq", "every hashbrown probe's eq closure compares the probed element's key with the looked-up key; rehash uses the stored hash", 9, probe_eq, F)
    chk.run_rule("C17.key-guard", "a disk hit is handed out only if the decoded key is equivalent to the requested key", 3, common.key_guard, F)
    chk.run_rule("C17.hash-once", "each memory-cache operation hashes the key once and uses that hash for shard choice and probe", 5, hash_once, F)
