"""C03 — corrupted or misdirected disk bytes never surface as a cached value (DESIGN.md §4 C03)."""
import re

from sa import mir, tables
from sa.mir import backslice, AnchorMissing
from rules import common

TITLE = ("C03: range and checksum tests dominate decoding; the loader always passes the header's checksum; magic / compression tag validated; "
         "blob index checksum before use; error kinds map to miss + index removal; recovery mode table; key guard.")
NOT_DECIDED = [
    "panic-freedom of recovery under arbitrary bytes (needs value ranges of device-derived integers); the tombstone log has no checksum at all (observation)",
    "collisions of the 64-bit checksum; that header fields other than lengths (e.g. the compression tag) are not covered by the entry checksum (observation)",
    "bit-exactness of the decoded value (C08)",
]

S = "foyer_storage::serde"
B = "foyer_storage::engine::block"


def _engine_load(F):
    outer = F.method(B + "::engine::BlockEngine", "load")
    cs = [c for c in F.descendants(outer) if c.kind == "coroutine" and c.calls_to(r"serde::EntryDeserializer::deserialize$")]
    if len(cs) != 1:
        raise AnchorMissing("BlockEngine::load: async body calling EntryDeserializer::deserialize not found")
    return cs[0]


def checksum_first(r, F):
    fn = F.method(S + "::EntryDeserializer", "deserialize")
    decs = fn.calls_to(r"EntryDeserializer::deserialize_(value|key)$")
    if len(decs) != 2:
        raise AnchorMissing("deserialize: deserialize_value / deserialize_key not found")
    # (a) range test before any slicing of the buffer
    rng = tables.find_cmp(fn, lambda f, op: op.place is not None and backslice(f, op, "prov").has_call(r"slice::<impl \[T\]>::len$|\[T\]>::len$") or
                          (op.place is not None and any(s.rv.k == "other" and "PtrMetadata" in str(s.rv.j.get("s")) for _, s in backslice(f, op, "prov").stmts)),
                          lambda f, op: op.place is not None and {2, 3} <= backslice(f, op, "dep").args, "comparison buffer.len() < value_len + key_len")
    idx = [b.idx for b in fn.calls_to(r"ops::Index::index$") if 1 in backslice(fn, b.term.args[0], "prov").args]
    for c, flipped in rng:
        # on the too-short edge (len < need) nothing is sliced or decoded
        short_t = c.target("lt", flipped)
        reach = fn.reachable([short_t], avoid=[c.sw.idx])
        r.require(not (set(idx) & reach) and not ({d.idx for d in decs} & reach) and all(fn.dominates(c.sw.idx, i) for i in idx), fn, "range test dom slicing",
                  "the buffer is sliced only after `buffer.len() >= value_len + key_len` held", "the entry buffer is sliced / decoded on the edge where it is shorter than the recorded lengths", ln=c.ln)
    # (b) checksum comparison before decoding when a checksum is given
    cks = fn.calls_to(r"serde::Checksummer::checksum64$")
    if len(cks) != 1:
        raise AnchorMissing("deserialize: Checksummer::checksum64 not found exactly once")
    none_edges = []
    for (sb, pl, tm, other) in tables.discr_switches(fn):
        if pl.is_local() and pl.local == 5 and "None" in tm:
            none_edges.append((sb.idx, tm["None"]))
    if not none_edges:
        # is there a match on something *derived* from the parameter (filter / and_then / a condition)? then verification can be skipped
        derived = [(sb, pl) for (sb, pl, tm, other) in tables.discr_switches(fn) if "None" in tm and 5 in backslice(fn, pl, "dep").args]
        if derived:
            r.fail(fn, "checksum verified whenever one is supplied", "the optional checksum is transformed (filtered / made conditional) before it is tested: for some entries "
                   "verification is skipped although the caller supplied the checksum, so damaged payload bytes are decoded into a value", ln=derived[0][0].term.ln)
            return
        raise AnchorMissing("deserialize: match on the optional checksum not found")
    cmp = tables.find_cmp(fn, lambda f, op: op.place is not None and 5 in backslice(f, op, "prov").args,
                          lambda f, op: op.place is not None and any(bb == cks[0].idx for bb, _ in backslice(f, op, "prov").calls), "comparison of the expected checksum with the computed one")
    for c, flipped in cmp:
        eq_edge = (c.sw.idx, c.target("eq", flipped))
        ne_t = c.target("lt", flipped)
        for d in decs:
            ok = d.idx not in fn.reachable([0], avoid_edges=[eq_edge] + none_edges)
            r.require(ok, fn, "checksum equal (or absent) dom " + d.term.callee.rsplit("::", 1)[-1],
                      "decoding is reachable only over the `checksum matches` edge (or when no checksum was requested)",
                      "value/key decoding is reachable although the entry checksum did not match: garbage is deserialized into a value", ln=d.term.ln)
        reach = fn.reachable([ne_t], avoid=[c.sw.idx])
        errs = [s for b in reach for s in fn.blocks[b].stmts if s.k == "assign" and s.rv.k == "agg" and s.rv.j.get("variant") == "ChecksumMismatch"]
        r.require(bool(errs) and not ({d.idx for d in decs} & reach), fn, "mismatch -> Err(ChecksumMismatch)", "the unequal edge returns ErrorKind::ChecksumMismatch",
                  "a checksum mismatch does not return ErrorKind::ChecksumMismatch", ln=c.ln)
        # the checksum covers exactly value_len + key_len bytes of the buffer
        csl = backslice(fn, cks[0].term.args[0], "dep")
        r.require({1, 2, 3} <= csl.args, fn, "checksum over buffer[..value_len+key_len]", "the checksum range is computed from both recorded lengths",
                  "the verified range does not cover value and key bytes", ln=cks[0].term.ln)


def load_args(r, F):
    fn = _engine_load(F)
    de = fn.calls_to(r"serde::EntryDeserializer::deserialize$")[0]
    hr = fn.calls_to(r"block::serde::EntryHeader::read$")
    if len(hr) != 1:
        raise AnchorMissing("BlockEngine::load: EntryHeader::read not found exactly once")
    a = de.term.args
    # arg 5: an unconditional `Some(header.checksum)` aggregate
    ck = backslice(fn, a[4], "prov")
    somes = [s for _, s in ck.aggs if s.rv.j.get("adt", "").endswith("option::Option") and s.rv.j.get("variant") == "Some"]
    defs = [d for d in fn.defs().get(a[4].place.local, []) if not fn.blocks[d[0]].cleanup] if a[4].place is not None else []
    direct = len(defs) == 1 and defs[0][2] == "assign" and defs[0][3].rv.k == "agg" and defs[0][3].rv.j.get("variant") == "Some"
    ok = direct and backslice(fn, defs[0][3].rv.ops[0], "prov").has_field("checksum", "EntryHeader") and \
        any(bb == hr[0].idx for bb, _ in backslice(fn, defs[0][3].rv.ops[0], "prov").calls)
    r.require(ok, fn, "deserialize(.., Some(header.checksum))", "the loader unconditionally passes the checksum recorded in the entry header",
              "BlockEngine::load does not unconditionally pass `Some(header.checksum)` to the deserializer: some entries are decoded without their "
              "payload checksum being verified, so a flipped bit in the value bytes surfaces as a cached value", ln=de.term.ln)
    for i, fld in ((1, "key_len"), (2, "value_len"), (3, "compression")):
        sl = backslice(fn, a[i], "prov")
        r.require(sl.has_field(fld, "EntryHeader") and any(bb == hr[0].idx for bb, _ in sl.calls), fn, "deserialize arg %s from the same header" % fld,
                  "%s comes from the header that was just read" % fld, "the deserializer is given a %s that does not come from the entry's own header" % fld, ln=de.term.ln)
    # header and payload are slices of the same loaded buffer
    hb = backslice(fn, hr[0].term.args[0], "dep")
    pb = backslice(fn, a[0], "dep")
    rd = {bb for bb, t in hb.calls if t.callee and re.search(r"Block::read$|::read$", t.callee)} & {bb for bb, t in pb.calls if t.callee and re.search(r"Block::read$|::read$", t.callee)}
    r.require(bool(rd), fn, "header and payload from one read", "both are slices of the buffer returned by the single device read", "header and payload come from different buffers", ln=de.term.ln)


def header(r, F):
    fn = F.method(B + "::serde::EntryHeader", "read")
    oks = [(b.idx, s) for b in fn.blocks if not b.cleanup for s in b.stmts if s.k == "assign" and s.rv.k == "agg" and s.rv.j.get("adt") == B + "::serde::EntryHeader"]
    if not oks:
        raise AnchorMissing("EntryHeader::read: construction of the header not found")
    cm = tables.find_cmp(fn, lambda f, op: op.place is not None and any(s.rv.k == "bin" and s.rv.op == "BitAnd" for _, s in backslice(f, op, "prov").binops) or
                         (op.place is not None and any(s.rv.k == "bin" and s.rv.op == "BitAnd" for _, s in backslice(f, op, "prov").stmts)),
                         lambda f, op: op.is_const() or (op.place is not None and backslice(f, op, "prov").consts), "comparison of the masked magic with ENTRY_MAGIC")
    for c, flipped in cm:
        for (ob, s) in oks:
            r.require(fn.edge_guards(c.sw.idx, c.target("eq", flipped), ob), fn, "magic==ENTRY_MAGIC dom Ok(header)", "a header is produced only over the magic-equal edge",
                      "an entry header is accepted without its magic matching: stale / foreign sectors are parsed as entries", ln=c.ln)
    tf = fn.calls_to(r"TryFrom::try_from$|Compression as std::convert::TryFrom<u8>>::try_from$")
    ok = False
    for t in tf:
        for (sb, pl, tm, other) in tables.variant_switch_on(fn, t.idx):
            if "Continue" in tm and all(fn.edge_guards(sb.idx, tm["Continue"], ob) for ob, _ in oks):
                ok = True
    r.require(ok, fn, "Compression::try_from(..)? dom Ok(header)", "an unknown compression tag is propagated as an error", "the compression tag is not validated before the header is accepted", ln=fn.lo)
    # tag tables: try_from maps exactly {0,1,2}, inverse of to_u8
    tf_fn = [f for f in F.all_fns("P") if f.id.endswith("Compression as std::convert::TryFrom<u8>>::try_from")]
    to_fn = F.method("foyer_storage::compress::Compression", "to_u8")
    if len(tf_fn) != 1:
        raise AnchorMissing("Compression::try_from not found")
    tff = tf_fn[0]
    dec = {}
    for b in tff.blocks:
        if b.cleanup or b.term.k != "switch":
            continue
        if 1 in backslice(tff, b.term.discr, "prov").args:
            for v, t in b.term.j["ts"]:
                reach = tff.reachable([t], avoid=[b.idx])
                vs = {s.rv.j.get("variant") for bb in reach for s in tff.blocks[bb].stmts if s.k == "assign" and s.rv.k == "agg" and s.rv.j.get("adt", "").endswith("compress::Compression")}
                dec[v] = sorted(vs)
            oth = tff.reachable([b.term.j["else"]], avoid=[b.idx])
            dec["else"] = sorted({s.rv.j.get("variant") for bb in oth for s in tff.blocks[bb].stmts if s.k == "assign" and s.rv.k == "agg" and s.rv.j.get("adt", "").endswith("compress::Compression")})
    enc = {}
    for (sb, pl, tm, other) in tables.discr_switches(to_fn):
        for v, t in tm.items():
            reach = to_fn.reachable([t], avoid=[sb.idx])
            cs = {s.rv.ops[0].const_val() for bb in reach for s in to_fn.blocks[bb].stmts if s.k == "assign" and s.place.local == 0 and s.rv.k == "use" and s.rv.ops[0].is_const()}
            enc[v] = sorted(cs)
    inv = all(len(v) == 1 and dec.get(v[0]) == [k] for k, v in enc.items()) and len(enc) == 3 and dec.get("else") == []
    r.require(inv, tff, "tag tables inverse", "to_u8 %s / try_from %s are inverse and every other tag is an error" % (enc, dec),
              "Compression::to_u8 %s and Compression::try_from %s are not inverse (or an unknown tag is accepted)" % (enc, dec), ln=tff.lo)


def blob_index(r, F):
    fn = F.method(B + "::buffer::BlobIndexReader", "read")
    ck = fn.calls_to(r"serde::Checksummer::checksum64$")
    gets = fn.calls_to(r"bytes::Buf::get_u(32|64)$")
    if len(ck) != 1 or len(gets) < 2:
        raise AnchorMissing("BlobIndexReader::read: checksum64 / get_u64 / get_u32 not found")
    cmp = tables.find_cmp(fn, lambda f, op: op.place is not None and any(bb == ck[0].idx for bb, _ in backslice(f, op, "prov").calls),
                          lambda f, op: op.place is not None and backslice(f, op, "prov").has_call(r"Buf::get_u64$"), "comparison of the computed index checksum with the stored one")
    cnt = [g for g in gets if g.term.callee.endswith("get_u32")]
    users = cnt + fn.calls_to(r"chunks_exact$") + fn.calls_to(r"Iterator::collect$")
    for c, flipped in cmp:
        eq_t = c.target("eq", flipped)
        r.require(all(fn.edge_guards(c.sw.idx, eq_t, u.idx) for u in users) and bool(users), fn, "index checksum equal dom count/entries",
                  "count and entries are read only over the checksum-equal edge", "the blob index count / entries are used although the index checksum did not match", ln=c.ln)
        ne_t = c.target("lt", flipped)
        reach = fn.reachable([ne_t], avoid=[c.sw.idx])
        nones = [s for b in reach for s in fn.blocks[b].stmts if s.k == "assign" and s.place.local == 0 and s.rv.k == "agg" and s.rv.j.get("variant") == "None"]
        r.require(bool(nones), fn, "mismatch -> None", "a damaged index yields None", "a damaged blob index does not yield None", ln=c.ln)
    # the checksum covers everything after the checksum field
    sc = F.fn(B + "::scanner::BlockScanner::next::{closure#0}")
    rd = sc.calls_to(r"buffer::BlobIndexReader::read$")
    ok = False
    for b in rd:
        for (sb, pl, tm, other) in tables.variant_switch_on(sc, b.idx):
            if "None" in tm:
                reach = sc.reachable([tm["None"]], avoid=[sb.idx])
                rets = [s for bb in reach for s in sc.blocks[bb].stmts if s.k == "assign" and s.rv.k == "agg" and s.rv.j.get("variant") == "None"]
                infos = [s for bb in reach for s in sc.blocks[bb].stmts if s.k == "assign" and s.rv.k == "agg" and (s.rv.j.get("adt") or "").endswith("EntryInfo")]
                ok = bool(rets) and not infos
    r.require(ok, sc, "scanner: damaged index -> Ok(None)", "the block scan ends at the first damaged blob index", "the scanner continues after a damaged blob index", ln=sc.lo)


def miss_table(r, F):
    fn = _engine_load(F)
    kinds = fn.calls_to(r"error::Error::kind$")
    if len(kinds) < 2:
        raise AnchorMissing("BlockEngine::load: the two matches on e.kind() were not found")
    rem = [b.idx for b in fn.calls_to(r"indexer::Indexer::remove$")]
    want = [{"Parse", "MagicMismatch", "ChecksumMismatch", "OutOfRange"}, {"MagicMismatch", "ChecksumMismatch", "OutOfRange"}]
    seen = 0
    for k in sorted(kinds, key=lambda b: b.term.ln):
        for (sb, pl, tm, other) in tables.variant_switch_on(fn, k.idx):
            w = want[min(seen, 1)]
            seen += 1
            for v in sorted(w):
                t = tm.get(v)
                reach = fn.reachable([t], avoid=[sb.idx]) if t is not None else set()
                miss = [s for bb in reach for s in fn.blocks[bb].stmts if s.k == "assign" and s.rv.k == "agg" and s.rv.j.get("adt", "").endswith("engine::Load") and s.rv.j.get("variant") == "Miss"]
                entry = [s for bb in reach for s in fn.blocks[bb].stmts if s.k == "assign" and s.rv.k == "agg" and s.rv.j.get("adt", "").endswith("engine::Load") and s.rv.j.get("variant") == "Entry"]
                r.require(t is not None and t != other and fn.must_pass(t, rem) and bool(miss) and not entry, fn, "%s -> Indexer::remove + Load::Miss (match %d)" % (v, seen),
                          "this corruption kind drops the index entry and reads as a miss", "ErrorKind::%s from the %s is not mapped to `remove the index entry, return Load::Miss`" % (v, "header" if seen == 1 else "payload"), ln=sb.term.ln)
    if seen < 2:
        r.fail(fn, "matches", "expected two matches on e.kind() (header, payload), found %d" % seen)


def recover_mode(r, F):
    fn = F.fn(B + "::recover::BlockRecoverRunner::run::{closure#0}")
    RM = "foyer_storage::engine::RecoverMode"
    strict = tables.variant_atoms(fn, RM, "Strict")
    none = tables.variant_atoms(fn, RM, "None")
    if not strict or not none:
        raise AnchorMissing("BlockRecoverRunner::run: tests of the recover mode against Strict / None not found")
    push = [b.idx for b in fn.calls_to(r"Vec::<T, A>::push$")]
    nxt = [b.idx for b in fn.calls_to(r"scanner::BlockScanner::next$")]
    for a in none:
        t = a.eq_edges[0][1]
        reach = fn.reachable([t], avoid=[a.sw])
        r.require(not (set(nxt) & reach), fn, "RecoverMode::None -> nothing scanned", "mode None returns without scanning", "RecoverMode::None still scans the device", ln=a.ln)
    for a in strict:
        t = a.eq_edges[0][1]
        reach = fn.reachable([t], avoid=[a.sw] + nxt)
        errb = [bb for bb in reach for s in fn.blocks[bb].stmts if s.k == "assign" and s.place.local == 0 and s.rv.k == "agg" and s.rv.j.get("variant") == "Err"]
        r.require(bool(errb) and fn.must_pass(t, errb, fn.returns() + nxt), fn, "Strict: scan error -> Err", "strict mode propagates the scan error on every path",
                  "strict recovery swallows a scan error (on some path the error is not returned)", ln=a.ln)
        t2 = a.ne_edges[0][1]
        reach2 = fn.reachable([t2], avoid=[a.sw])
        r.require(not (set(nxt) & reach2) and not (set(push) & reach2), fn, "Quiet: scan error -> stop this block", "quiet mode stops scanning the block and keeps what was recovered",
                  "quiet recovery continues scanning a block after a scan error", ln=a.ln)


def run(chk, F):
    chk.run_rule("C03.checksum-first", "range test and (when requested) checksum comparison dominate value/key decoding; mismatch returns ChecksumMismatch", 5, checksum_first, F)
    chk.run_rule("C03.load-args", "the block engine always passes Some(header.checksum), lengths and tag of the header it just read from the same buffer", 5, load_args, F)
    chk.run_rule("C03.header", "a header is accepted only with matching magic and a valid compression tag; tag tables are inverse", 3, header, F)
    chk.run_rule("C03.blob-index", "blob index count/entries are used only after the index checksum matched; a damaged index ends the scan", 3, blob_index, F)
    chk.run_rule("C03.miss-table", "parse / magic / checksum / range errors drop the index entry and read as a miss, never as an entry", 7, miss_table, F)
    chk.run_rule("C03.recover-mode", "recover mode table on scanner error: None skips, Quiet stops the block, Strict fails", 3, recover_mode, F)
    chk.run_rule("C03.key-guard", "a disk hit is handed out only if the decoded key is equivalent to the requested key", 3, common.key_guard, F)
    chk.run_rule("C03.io-result-checked", "the Result of every device read / write in the block engine is propagated, matched or handed on — never dropped", 9, common.io_result_checked, F)
