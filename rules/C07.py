"""C07 — what the flusher writes is exactly what recovery and lookups read back (DESIGN.md §4 C07)."""
import re
from fractions import Fraction

from sa import mir, tables, codec, affine
from sa.mir import backslice, AnchorMissing
from rules import C01, C03

TITLE = ("C07: writer/reader codec agreement of every on-disk record, address agreement between flusher and scanner, alignment, and the splitter's "
         "state updates as affine normal forms (sibling agreement of split_blob / seal_blob, entry offsets, scanner step).")
NOT_DECIDED = [
    "non-overlap of regions over arbitrary batch sequences (the per-step updates are decided as affine forms; their composition over all size sequences is not)",
    "that every key the disk tier claims to hold can be loaded (depends on C01/C03/C09 mechanisms as well)",
]

B = "foyer_storage::engine::block"
BUF = B + "::buffer"
CTX = BUF + "::SplitCtx"


def codecs(r, F):
    for adt, width in ((B + "::serde::EntryHeader", 36), (BUF + "::BlobEntryIndex", 24), (B + "::tombstone::Tombstone", 16)):
        w = F.method(adt, "write")
        rd = F.method(adt, "read")
        ws = codec.writer(w, adt)
        rs = codec.reader(rd, adt)
        short = adt.rsplit("::", 1)[-1]
        r.require(ws == rs and "?" not in [x[2] for x in ws], w, short + " write==read", "writer and reader agree field by field: %s" % [(a, b, c) for a, b, c in ws],
                  "%s::write emits %s but %s::read consumes %s: recovery / lookups misinterpret what the flusher wrote" % (short, ws, short, rs), ln=w.lo)
        straight = all(w.must_pass(0, [b.idx]) for b in w.calls_to(r"bytes::BufMut::put_\w+$")) and all(rd.must_pass(0, [b.idx]) for b in rd.calls_to(r"bytes::Buf::get_\w+$"))
        r.require(straight, w, short + " every field on every path", "each put_/get_ of the record is executed unconditionally", "a field of %s is written / read only on some paths: the record's layout then depends on a runtime condition" % short, ln=w.lo)
        r.require(codec.total_width(ws) == width, w, short + " width", "%d bytes" % width, "%s serializes %d bytes, expected %d" % (short, codec.total_width(ws), width), ln=w.lo)
        # ranged writers: contiguous, non-overlapping
        rng = [x[0] for x in ws if x[0] is not None]
        if rng:
            ok = rng[0][0] == 0 and all(rng[i][1] == rng[i + 1][0] for i in range(len(rng) - 1)) and all(b - a == codec.WIDTH[ws[i][1]] for i, (a, b) in enumerate(rng))
            r.require(ok, w, short + " ranges contiguous", "field ranges tile the record", "field ranges of %s overlap or leave gaps: %s" % (short, rng), ln=w.lo)
    sl_fn = F.method(B + "::serde::EntryHeader", "serialized_len")
    ret = [s for b in sl_fn.blocks for s in b.stmts if s.k == "assign" and s.place.local == 0]
    v = ret[0].rv.ops[0].const_val() if ret and ret[0].rv.ops and ret[0].rv.ops[0].is_const() else None
    if v is None and ret:
        f = affine.affine(sl_fn, mir.Operand({"c": {"l": 0, "p": []}}))
        v = int(f["1"]) if affine._const(f) else None
    r.require(v == 36, sl_fn, "EntryHeader::serialized_len == 36", "matches the written width", "EntryHeader::serialized_len() is %s, the writer emits 36 bytes" % v, ln=sl_fn.lo)
    # blob index: seal writes count at [8..12] and the checksum of [8..] at [0..8]; the reader checks [8..] against [0..8], count at [8..12], entries from 12
    seal = F.method(BUF + "::BlobIndex", "seal")
    rd = F.method(BUF + "::BlobIndexReader", "read")
    sw = codec.writer(seal)
    ck_w = [codec._range_of(seal, b.term.args[0]) for b in seal.calls_to(r"serde::Checksummer::checksum64$")]
    ck_r = [codec._range_of(rd, b.term.args[0]) for b in rd.calls_to(r"serde::Checksummer::checksum64$")]
    gets = [(codec._range_of(rd, b.term.args[0]), b.term.callee.rsplit("get_", 1)[-1]) for b in sorted(rd.calls_to(r"bytes::Buf::get_\w+$"), key=lambda b: b.idx)]
    puts = sorted([(x[0], x[1]) for x in sw], key=lambda x: str(x[0]))
    r.require(sorted(gets, key=lambda x: str(x[0])) == puts and ck_w == ck_r and ck_w and ck_w[0][0] == "RangeFrom" and ck_w[0][1] == 8, seal, "BlobIndex seal==read",
              "checksum over [8..] stored at [0..8], count u32 at [8..12] on both sides: puts %s, checksum range %s" % (puts, ck_w),
              "BlobIndex::seal writes %s (checksum over %s) but BlobIndexReader::read reads %s (checksum over %s)" % (puts, ck_w, gets, ck_r), ln=seal.lo)


def blob_index_count(r, F):
    """BlobIndex::write appends at slot `count` and then counts the entry (count += 1): seal() stores that count and the reader decodes exactly `count` entries"""
    w = F.method(BUF + "::BlobIndex", "write")
    ups = tables.field_updates(w, "count", BUF + "::BlobIndex")
    ok = len(ups) == 1
    if ok:
        form = affine.affine(w, ups[0]["stmt"].rv.ops[0], depth=1)
        var = [k for k in form if k != "1"]
        ok = len(var) == 1 and "count" in var[0] and form[var[0]] == 1 and form.get("1") == 1 and w.must_pass(0, [ups[0]["block"]])
    r.require(ok, w, "BlobIndex::write counts the entry", "count := count + 1 on every path", "BlobIndex::write does not advance the entry count by one: the sealed index announces fewer entries than it holds "
              "and recovery never sees the rest", ln=w.lo)
    bw = w.calls_to(r"buffer::BlobEntryIndex::write$")
    okr = len(bw) == 1
    if okr:
        sl = backslice(w, bw[0].term.args[1], "dep")
        okr = sl.has_field("count", BUF + "::BlobIndex") and (not ups or w.dominates(bw[0].idx, ups[0]["block"]) or bw[0].idx == ups[0]["block"])
    r.require(okr, w, "BlobIndex::write places the entry at slot `count`", "the written range depends on the current count and the count moves afterwards",
              "BlobIndex::write does not place the entry at the slot given by the current count", ln=w.lo)


def address_agreement(r, F):
    """every EntryAddress built from a BlobEntryIndex: offset = blob start + index.offset, len/sequence/hash from the same index"""
    sites = []
    for f in F.all_fns("P"):
        if f.crate.name != "foyer_storage" or f.file.endswith("indexer.rs"):
            continue
        for b in f.blocks:
            if b.cleanup:
                continue
            for i, s in enumerate(b.stmts):
                if s.k == "assign" and s.rv.k == "agg" and s.rv.j.get("adt") == B + "::indexer::EntryAddress":
                    sites.append((f, b.idx, i, s))
    n = 0
    for (f, bi, i, s) in sites:
        flds = dict(s.rv.agg_fields())
        osl = backslice(f, flds["offset"], "dep")
        if not osl.has_field("offset", "BlobEntryIndex"):
            continue  # not built from a blob index (e.g. test helpers)
        n += 1
        form = affine.affine(f, flds["offset"], depth=1, pos=(bi, i))
        keys = sorted(form)
        idx_off = [k for k in keys if k.endswith(".offset") or ".offset@" in k]
        start = [k for k in keys if k not in idx_off and k != "1"]
        ok = len(idx_off) == 1 and len(start) == 1 and form[idx_off[0]] == 1 and form[start[0]] == 1 and "1" not in form
        r.require(ok, f, "EntryAddress.offset = blob start + index.offset", "affine form: %s" % affine.pretty(form),
                  "an entry address is computed as `%s` instead of `blob start in the block + offset recorded in the blob index`: lookups read the wrong region" % affine.pretty(form), ln=s.ln)
        for fld in ("len", "sequence"):
            sl = backslice(f, flds[fld], "prov")
            r.require(sl.has_field(fld, "BlobEntryIndex"), f, "EntryAddress.%s = index.%s" % (fld, fld), "copied from the blob index entry",
                      "EntryAddress.%s is not the blob index entry's %s" % (fld, fld), ln=s.ln)
    if n != 2:
        r.fail(None, "sites", "expected 2 constructions of EntryAddress from a blob index (flusher, scanner), found %d" % n)
    # the flusher's blob start is the offset the index page was written at; the scanner's is the offset it read the index from
    sc = F.fn(B + "::scanner::BlockScanner::next::{closure#0}")
    rd = sc.calls_to(r"manager::Block::read$")
    r.require(bool(rd) and backslice(sc, rd[0].term.args[2], "prov").has_field("offset", "BlockScanner"), sc, "scanner reads the index at self.offset",
              "the index page is read at the scanner's current blob start", "the scanner does not read the blob index at its current offset", ln=sc.lo)


def alignment(r, F):
    sub = F.method(B + "::flusher::Runner", "submit_io_task")
    cl = [f for f in F.descendants(sub) if f.calls_to(r"bits::assert_aligned$")]
    if not cl:
        raise AnchorMissing("submit_io_task: assert_aligned calls not found")
    f = cl[0]
    aa = f.calls_to(r"bits::assert_aligned$")
    r.require(len(aa) >= 2 and all(a.term.args[0].const_val() == 4096 or backslice(f, a.term.args[0], "prov").const_vals() == [4096] for a in aa), f,
              "offset and length asserted page aligned", "both the write offset and the data length are asserted PAGE aligned before the write is issued",
              "the flusher no longer asserts page alignment of offset and length", ln=aa[0].term.ln if aa else f.lo)
    # the asserted offset is blob_block_offset + part_blob_offset
    form = affine.affine(f, aa[0].term.args[1], depth=1)
    ks = sorted(k for k in form if k != "1")
    r.require(len(ks) == 2 and all(form[k] == 1 for k in ks) and "1" not in form and any("blob_block_offset" in k for k in ks) and any("part_blob_offset" in k for k in ks), f,
              "data offset = blob_block_offset + part_blob_offset", "affine form: %s" % affine.pretty(form), "the data of a blob part is written at `%s`" % affine.pretty(form), ln=aa[0].term.ln)
    # Buffer::push / push_slice advance `written` by align_up(PAGE, len)
    for name in ("push", "push_slice"):
        fn = F.method(BUF + "::Buffer", name)
        ups = tables.field_updates(fn, "written", BUF + "::Buffer")
        ok = False
        for u in ups:
            if u["kind"] == "add" and u["other"] is not None:
                sl = backslice(fn, u["other"], "prov")
                ok = ok or sl.has_call(r"bits::align_up$")
        r.require(ok and len(ups) == 1, fn, "%s: written += align_up(PAGE, len)" % name, "entries start on page boundaries", "Buffer::%s does not advance by the page-aligned length" % name, ln=fn.lo)
        # the recorded offset is the value of `written` before the update
        aggs = [(b.idx, i, s) for b in fn.blocks if not b.cleanup for i, s in enumerate(b.stmts) if s.k == "assign" and s.rv.k == "agg" and s.rv.j.get("adt") == BUF + "::BufferEntryInfo"]
        if aggs:
            bi, i, s = aggs[0]
            form = affine.affine(fn, dict(s.rv.agg_fields())["offset"], depth=1, pos=(bi, i))
            r.require(list(form) == ["self*.written@entry"], fn, "%s: info.offset = written before the push" % name, "affine form: %s" % affine.pretty(form),
                      "the recorded entry offset is `%s`, not the write position before this entry" % affine.pretty(form), ln=s.ln)
    # scanner step = last.offset + last.aligned(), else block size
    sc = F.fn(B + "::scanner::BlockScanner::next::{closure#0}")
    stepc = [c for c in F.descendants(sc) if c.calls_to(r"BlobEntryIndex::aligned$")]
    ok = False
    for c in stepc:
        form = affine.affine(c, mir.Operand({"c": {"l": 0, "p": []}}), depth=1)
        ks = sorted(k for k in form if k != "1")
        ok = ok or (len(ks) == 2 and all(form[k] == 1 for k in ks) and any("offset" in k for k in ks))
    r.require(ok, sc, "scanner step = last.offset + last.aligned()", "the next blob starts right after the last indexed entry's aligned end",
              "the scanner does not advance by the last indexed entry's aligned end", ln=sc.lo)
    ups = tables.field_updates(sc, "offset", "BlockScanner")
    r.require(len(ups) == 1 and ups[0]["kind"] == "add", sc, "scanner offset += step", "the scanner advances additively", "the scanner position is not advanced by the step", ln=sc.lo)


def _stores(fn, field):
    out = []
    for b in fn.blocks:
        if b.cleanup:
            continue
        for i, s in enumerate(b.stmts):
            if s.k == "assign" and s.place.fields()[-1:] == [field] and (CTX in [o for o, _ in s.place.field_ofs()]):
                out.append((b.idx, i, s))
    return out


def splitter(r, F):
    SP = BUF + "::Splitter"
    E = lambda k: "ctx*.%s@entry" % k
    CBO, CPO, BIS, PS = E("current_blob_block_offset"), E("current_part_blob_offset"), E("blob_index_size"), "part_size*@entry"
    one = Fraction(1)
    want_closed = {CBO: one, CPO: one, PS: one}
    seen_closed = 0
    for name in ("split_blob", "seal_blob"):
        fn = F.method(SP, name)
        # the `&mut usize` parameter carrying the bytes of the current part (third parameter), whatever it is called
        ps_param = next((l for l in range(1, fn.argc + 1) if fn.local_ty(l) == "&mut usize"), 3)
        ps_key = "%s*@entry" % (fn.local_name(ps_param) or "_%d" % ps_param)
        for st in _stores(fn, "current_blob_block_offset"):
            form = affine.store_form(fn, st)
            form = {(PS if k == ps_key else k): v for k, v in (form or {}).items()}
            empty_ok = form == {CBO: one, CPO: one}   # the branch whose part is empty (part_size asserted 0)
            if form == want_closed:
                seen_closed += 1
            r.require(form == want_closed or (name == "split_blob" and empty_ok), fn, "next blob start = blob start + part offset + part size",
                      "affine form of the new current_blob_block_offset: %s" % affine.pretty(form),
                      "%s advances the blob start to `%s`; its sibling sites use `blob start + current part offset + part size` (values on entry): "
                      "the next blob's index page and data land on top of live entries of the previous blob" % (name, affine.pretty(form)), ln=st[2].ln)
        for st in _stores(fn, "current_part_blob_offset"):
            form = affine.store_form(fn, st)
            form = {(PS if k == ps_key else k): v for k, v in (form or {}).items()}
            r.require(form == {BIS: one} or (name == "seal_blob" and form == {CPO: one, PS: one}), fn, "part offset reset / continued",
                      "affine form of the new current_part_blob_offset: %s" % affine.pretty(form),
                      "%s sets the in-blob data offset to `%s` (expected blob_index_size for a new blob, or part offset + part size when the blob continues)" % (name, affine.pretty(form)), ln=st[2].ln)
        # the emitted BlobPart carries the entry values
        for b in fn.blocks:
            if b.cleanup:
                continue
            for i, s in enumerate(b.stmts):
                if s.k == "assign" and s.rv.k == "agg" and s.rv.j.get("adt") == BUF + "::BlobPart":
                    flds = dict(s.rv.agg_fields())
                    f1 = affine.affine(fn, flds["blob_block_offset"], depth=1, pos=(b.idx, i))
                    f2 = affine.affine(fn, flds["part_blob_offset"], depth=1, pos=(b.idx, i))
                    r.require(f1 == {CBO: one} and f2 == {CPO: one}, fn, "BlobPart offsets = state on entry", "blob_block_offset=%s part_blob_offset=%s" % (affine.pretty(f1), affine.pretty(f2)),
                              "%s emits a blob part at blob_block_offset=%s part_blob_offset=%s (expected the values on entry)" % (name, affine.pretty(f1), affine.pretty(f2)), ln=s.ln)
    if seen_closed < 2:
        r.fail(None, "siblings", "expected the closing update in both split_blob and seal_blob, found %d" % seen_closed)
    sb = F.method(SP, "split_block")
    for st in _stores(sb, "current_blob_block_offset"):
        form = affine.store_form(sb, st)
        r.require(form == {"1": Fraction(0)}, sb, "new block starts at 0", "blob start reset", "split_block sets the blob start to %s" % affine.pretty(form), ln=st[2].ln)
    # split(): index.offset = part offset + part size so far; part_size += aligned(); block-full test
    sp = F.method(SP, "split")
    aggs = [(b.idx, i, s) for b in sp.blocks if not b.cleanup for i, s in enumerate(b.stmts) if s.k == "assign" and s.rv.k == "agg" and s.rv.j.get("adt") == BUF + "::BlobEntryIndex"]
    if not aggs:
        raise AnchorMissing("Splitter::split: BlobEntryIndex construction not found")
    bi, i, s = aggs[0]
    flds = dict(s.rv.agg_fields())
    form = affine.affine(sp, flds["offset"], depth=1, pos=(bi, i))
    ks = sorted(k for k in form if k != "1")
    r.require(len(ks) == 2 and all(form[k] == 1 for k in ks) and "1" not in form and any("current_part_blob_offset" in k for k in ks) and any("." not in k for k in ks), sp,
              "index.offset = part offset + bytes of this part so far", "affine form: %s" % affine.pretty(form), "an entry's in-blob offset is recorded as `%s`" % affine.pretty(form), ln=s.ln)
    r.require(backslice(sp, flds["len"], "prov").has_field("len", "BufferEntryInfo") and backslice(sp, flds["hash"], "prov").has_field("hash", "BufferEntryInfo") and
              backslice(sp, flds["sequence"], "prov").has_field("sequence", "BufferEntryInfo"), sp, "index hash/sequence/len from the buffered entry", "copied from the entry being placed",
              "a blob index entry does not carry the placed entry's hash / sequence / len", ln=s.ln)
    cm = [c for c in tables.comparisons(sp) if c.op in ("Gt", "Ge", "Lt", "Le") and backslice(sp, c.rhs, "prov").has_field("block_size") or
          (c.op in ("Gt", "Ge", "Lt", "Le") and backslice(sp, c.lhs, "prov").has_field("block_size"))]
    okc = False
    for c in cm:
        big = c.lhs if backslice(sp, c.rhs, "prov").has_field("block_size") else c.rhs
        form = affine.affine(sp, big, depth=1)
        ks = sorted(k for k in form if k != "1")
        if len(ks) == 4 and all(form[k] == 1 for k in ks):
            sbk = [b.idx for b in sp.calls_to(r"Splitter::split_block$")]
            tab = tables.table(sp, c, backslice(sp, c.lhs, "prov").has_field("block_size"), sbk)
            okc = tab[0] == "no" and tab[1] == "no" and tab[2] in ("yes", "maybe")
    r.require(okc, sp, "entry end > block size -> new block", "blob start + part offset + part bytes + aligned entry > block_size starts a new block (fits exactly: stays)",
              "the block-full test of the splitter is not `blob start + part offset + part size + aligned(entry) > block_size`", ln=sp.lo)


def run(chk, F):
    chk.run_rule("C07.codec", "every on-disk record's writer and reader agree on order, width and range; header length; blob index seal/read", 9, codecs, F)
    chk.run_rule("C07.blob-index-count", "BlobIndex::write places each entry at slot `count` and advances the count by one", 2, blob_index_count, F)
    chk.run_rule("C07.address-agreement", "flusher and scanner compute entry addresses as blob start + index.offset with len/sequence from the index", 7, address_agreement, F)
    chk.run_rule("C07.alignment", "page alignment asserted before writes; buffer and scanner advance by aligned lengths", 8, alignment, F)
    chk.run_rule("C07.scan-stops-at-stale-blob", "the block scan ends at the first blob whose sequence regresses against the last entry recovered from the block", 2, C01.block_regression, F)
    chk.run_rule("C07.scan-stops-at-damaged-blob", "blob index used only after its checksum matched; a damaged index ends the scan", 3, C03.blob_index, F)
    chk.run_rule("C07.splitter-updates", "the splitter's state updates, emitted parts and entry offsets as affine forms; split_blob / seal_blob agree", 10, splitter, F)
    from rules import mustcall
    mustcall.run_for(chk, F, "C07")
