"""C18 — handles pin what they reference and report outdatedness truthfully (DESIGN.md §4 C18)."""
import re

from sa import mir, tables, flow
from sa.mir import backslice, AnchorMissing

TITLE = "C18: reference-count pairing (every increment ends in a handle), LRU pin-list discipline, is_outdated, immutability of Record.data."
NOT_DECIDED = [
    "that capacity is re-established over arbitrary operation sequences once no handles are outstanding",
    "multi-threaded races between pinning and eviction",
    "value equality of what a handle dereferences to over time (only: no code path can write Record.data)",
]

SHARD = "foyer_memory::raw::RawCacheShard"
ENTRY = "foyer_memory::raw::RawCacheEntry"
INC = r"^foyer_memory::record::Record::<E>::inc_refs$"
DEC = r"^foyer_memory::record::Record::<E>::dec_refs$"
ARC_RECORD = "std::sync::Arc<foyer_memory::record::Record<"


def incrementing_shard_methods(F):
    """shard methods that return an Arc<Record> whose reference count they (transitively) incremented"""
    shard = [f for f in F.all_fns("P") if f.self_ty and f.self_ty.startswith(SHARD) and f.kind == "assoc_fn"]
    ret_rec = [f for f in shard if ARC_RECORD in f.local_ty(0)]
    inc = set()
    inc_cids = set()
    changed = True
    while changed:
        changed = False
        for f in ret_rec:
            if f.id in inc:
                continue
            bodies = [f] + F.descendants(f)
            direct = any(g.calls_to(INC) for g in bodies)
            via = any(t.term.callee_cid in inc_cids for g in bodies for t in g.calls())
            if direct or via:
                inc.add(f.id)
                inc_cids.add(f.cid)
                changed = True
    return [F.P[i] for i in sorted(inc)]


def _entry_sink(f, s, name, kind):
    if kind == "agg" and s.rv.j.get("adt") == ENTRY and name == "record":
        return "RawCacheEntry{record}"
    return None


def refs_paired(r, F):
    incs = incrementing_shard_methods(F)
    names = sorted(f.short.rsplit("::", 1)[-1] for f in incs)
    if not {"get_inner", "remove"} <= set(names):
        raise AnchorMissing("incrementing shard methods not recognised (found %s)" % names)
    inc_cids = {f.cid for f in incs}
    n = 0
    for f in F.all_fns("P"):
        if f.crate.name != "foyer_memory":
            continue
        if f.self_ty and f.self_ty.startswith(SHARD) and f.kind == "assoc_fn":
            continue  # shard-internal forwarding (get_noop -> get_inner) returns the counted reference to its caller
        root = F.P.get(f.root)
        if root is not None and root.self_ty and root.self_ty.startswith(SHARD):
            continue
        for b in f.calls():
            t = b.term
            if not t.callee or t.callee_cid not in inc_cids:
                continue
            n += 1
            fl = flow.forward(F, f, [t.dest.local], sink=_entry_sink)
            m = t.callee.rsplit("::", 1)[-1]
            r.require(bool(fl.sinks), f, "counted-ref-from:" + m,
                      "the counted reference returned by %s is moved into a RawCacheEntry (in %s)" % (m, sorted({s[0].short.split('::', 2)[-1] for s in fl.sinks})),
                      "the reference counted (and acquired) by RawCacheShard::%s is never wrapped in a RawCacheEntry: nothing will ever "
                      "decrement it / release the eviction pin (the record stays pinned forever)" % m, ln=t.ln)
    if n < 7:
        r.fail(None, "sources", "only %d call sites of incrementing shard methods found outside the shard (expected >= 7: get x3, get_or_fetch_inner x3, remove)" % n)

    # conversely: a shard method that hands a record out (to become a handle) counts it on EVERY path that returns Some(record) — a conditional increment
    # leaves a handle whose drop decrements a count that was never taken (underflow / release while other handles are alive)
    for name in ("remove", "get_inner"):
        f = F.method(SHARD, name)
        bodies = [g for g in [f] + F.descendants(f) if g.calls_to(INC)]
        okc = False
        for g in bodies:
            incs_g = [b for b in g.calls_to(INC) if b.term.args[1].is_const() and b.term.args[1].const_val() == 1]
            none = [b.idx for b in g.calls_to(r"FromResidual")] + [b.idx for b in g.blocks if not b.cleanup for s_ in b.stmts
                                                                if s_.k == "assign" and s_.place.local == 0 and s_.rv.k == "agg" and s_.rv.j.get("variant") == "None"]
            okc = okc or (bool(incs_g) and g.must_pass(0, [b.idx for b in incs_g] + none))
        r.require(okc, f, "%s: every returned record is counted" % name, "inc_refs(1) on every path that returns Some(record)",
                  "RawCacheShard::%s can return a record without counting the reference of the handle built from it" % name, ln=f.lo)
    # emplace: inc_refs(notifiers.len() + 1)
    em = F.method(SHARD, "emplace")
    for b in em.calls_to(INC):
        sl = backslice(em, b.term.args[1], "dep")
        lens = [t for _, t in sl.calls if t.callee and t.callee.endswith("Vec::<T, A>::len")]
        from sa import affine as _aff
        form = _aff.affine(em, b.term.args[1], depth=1)
        lenlocals = {"_%d" % bb_.term.dest.local for bb_ in em.calls_to(r"Vec::<T, A>::len$")}
        # exactly  len(notifiers) + 1  (affine normal form: one length term with coefficient 1, constant 1)
        plus1 = form.get("1") == 1 and len([k for k in form if k != "1"]) == 1 and all(v == 1 and k in lenlocals for k, v in form.items() if k != "1")
        on_notifiers = any(4 in backslice(em, t.args[0], "prov").args for t in lens)
        recv = backslice(em, b.term.args[0], "prov")
        r.require(bool(lens) and plus1 and on_notifiers and 2 in recv.args, em, "inc_refs(notifiers.len()+1)",
                  "the inserted record is counted once per waiter plus once for the returned handle",
                  "emplace does not count one reference per notified waiter plus one for the returned handle", ln=b.term.ln)
    incs_em = [b.idx for b in em.calls_to(INC)]
    r.require(bool(incs_em) and em.must_pass(0, incs_em), em, "every path of emplace counts the handles it hands out",
              "both the normal and the disk-only path count the references", "a path of emplace returns without counting the references of the handles that insert_inner builds "
              "(the first drop underflows / releases the record while other handles are alive)", ln=em.lo)
    # insert_inner: one handle per notifier (inside the loop over `notifiers`), one returned
    ii = F.fn("foyer_memory::raw::RawCache::insert_inner")
    aggs = [(b.idx, s) for b in ii.blocks if not b.cleanup for s in b.stmts if s.k == "assign" and s.rv.k == "agg" and s.rv.j.get("adt") == ENTRY]
    nvec = {l for l in range(ii.nlocals) if ii.local_ty(l).startswith("std::vec::Vec<mea::oneshot::Sender<")}
    nexts = [b for b in ii.calls_to(r"iter::Iterator::next$") if backslice(ii, b.term.args[0], "dep").locals & nvec]
    sends = [b.idx for b in ii.calls_to(r"oneshot::Sender::<T>::send$")]
    per_notifier = False
    for nb in nexts:
        for (ab, s) in aggs:
            # aggregate lies on a cycle through the `next` call and reaches a send before the next iteration
            on_cycle = nb.idx in ii.reachable([ab]) and ab in ii.reachable([nb.idx])
            if on_cycle and any(sb in ii.reachable([ab], avoid=[nb.idx]) for sb in sends):
                per_notifier = True
    r.require(per_notifier, ii, "one-handle-per-notifier", "each notifier is sent its own RawCacheEntry built inside the loop",
              "insert_inner does not build one RawCacheEntry per notified waiter (emplace counted notifiers.len()+1 references)", ln=ii.lo)
    # ... for EVERY notifier: emplace reserved one reference per element of the vector, so every iteration builds a handle (whose drop gives the reference back
    # even when the waiter is gone) — no `continue` that skips an element
    every = bool(nexts) and bool(aggs)
    for nb in nexts:
        for (sb_, pl, tm, other) in tables.variant_switch_on(ii, nb.idx):
            if "Some" in tm:
                loop_aggs = [ab for (ab, s_) in aggs if nb.idx in ii.reachable([ab]) and ab in ii.reachable([nb.idx])]
                reach = ii.reachable([tm["Some"]], avoid=loop_aggs)
                every = every and bool(loop_aggs) and not (set(ii.returns() + [nb.idx]) & reach)
    r.require(every, ii, "a handle for every notifier", "from the Some edge of the notifier loop every path builds a RawCacheEntry before the next element",
              "insert_inner skips some notifiers without building their RawCacheEntry (e.g. waiters whose receiver is gone): emplace counted one reference for each of them, so the record keeps "
              "references nobody will ever drop — under LRU it stays pinned and can never be evicted", ln=ii.lo)
    ret = [ab for (ab, s) in aggs if s.place.local == 0]
    r.require(bool(ret) and ii.must_pass(0, ret), ii, "one-handle-returned", "the returned handle is built on every path",
              "insert_inner does not return a RawCacheEntry on every path", ln=ii.lo)

    # Clone: exactly one inc_refs(1) on every path; Drop: exactly one dec_refs(1) first, release only when it returns 0
    cl = F.method(ENTRY, "clone", "Clone")
    incs_c = cl.calls_to(INC)
    ok = len(incs_c) == 1 and incs_c[0].term.args[1].const_val() == 1 and cl.must_pass(0, [incs_c[0].idx]) and \
        2 not in backslice(cl, incs_c[0].term.args[0], "prov").args and backslice(cl, incs_c[0].term.args[0], "prov").has_field("record", ENTRY)
    r.require(ok, cl, "clone->inc_refs(1)", "cloning a handle counts exactly one more reference on its own record",
              "RawCacheEntry::clone does not increment the reference count exactly once", ln=cl.lo)
    drop_last_handle(r, F)


def drop_last_handle(r, F):
    """Drop for RawCacheEntry: exactly one dec_refs(1); release / phantom hand-off only when THAT decrement returned 0"""
    dr = F.method(ENTRY, "drop", "Drop")
    decs = dr.calls_to(DEC)
    if len(decs) != 1:
        r.fail(dr, "drop->dec_refs(1)", "RawCacheEntry::drop must decrement the count exactly once (found %d dec_refs calls)" % len(decs), ln=dr.lo)
    else:
        d = decs[0]
        r.require(d.term.args[1].const_val() == 1 and dr.must_pass(0, [d.idx]) and backslice(dr, d.term.args[0], "prov").has_field("record", ENTRY),
                  dr, "drop->dec_refs(1)", "dropping a handle decrements its record's count exactly once on every path",
                  "RawCacheEntry::drop does not decrement by exactly one on every path", ln=d.term.ln)
        rel = [b.idx for g in [dr] + F.descendants(dr) for b in g.calls_to(r"RawCacheShard::<E, S, I>::release_(im)?mutable$")] if False else \
              [b.idx for b in dr.calls_to(r"^foyer_memory::eviction::Eviction::release$")]
        sends = [b.idx for b in dr.calls_to(r"^foyer_memory::pipe::Pipe::send$")] + [b.idx for b in dr.calls_to(r"EventListener::on_leave$")]
        try:
            found = tables.find_cmp(dr, lambda fn, op: op.place is not None and any(bb == d.idx for bb, _ in backslice(fn, op, "prov").calls),
                                    tables.role_const(0), "comparison of dec_refs() with 0")
        except AnchorMissing:
            found = []
            r.fail(dr, "refs==0->release", "the `last handle` test does not use the value returned by the atomic decrement itself (it re-reads the counter or "
                   "tests something else): two handles dropped concurrently can both (or neither) see zero, so a disk-only entry is notified and piped twice "
                   "(or never) and the eviction release runs twice", ln=d.term.ln)
        for c, flipped in found:
            tab = tables.table(dr, c, flipped, rel + sends)
            # refs is unsigned: the `lt` row (refs < 0) is infeasible; `eq` must act, `gt` must not
            r.require(tab[1] in ("yes", "maybe") and tab[2] == "no", dr, "refs==0->release",
                      "release / phantom hand-off only when the last reference is gone: table (refs<0, =0, >0) -> %s" % (tab,),
                      "release / phantom hand-off is not guarded by `remaining references == 0`: table (refs<0,=0,>0) -> %s" % (tab,), ln=c.ln)


def lru_pin(r, F):
    LRU = "foyer_memory::eviction::lru::Lru"
    pop = F.method(LRU, "pop", "Eviction")

    def list_fields(fn, blocks=None):
        """field names of Lru lists that are the receiver of intrusive list calls in fn: {field: [(method, block)]}"""
        out = {}
        for b in fn.calls():
            if blocks is not None and b.idx not in blocks:
                continue
            t = b.term
            if not t.callee or "intrusive_collections" not in t.callee or not t.args:
                continue
            sl = backslice(fn, t.args[0], "prov")
            for of, n in sl.fields:
                if of == LRU:
                    out.setdefault(n, []).append((t.callee.rsplit("::", 1)[-1], b.idx))
            for u in sl.upvars:
                # edition-2021 disjoint capture: upvar `_ref__self__<field>` is a borrow of self.<field>
                m = re.match(r"^(?:_ref__)?self__(\w+)$", u)
                if m:
                    out.setdefault(m.group(1), []).append((t.callee.rsplit("::", 1)[-1], b.idx))
        return out

    lf = list_fields(pop)
    for g in F.descendants(pop):
        for k, v in list_fields(g).items():
            lf.setdefault(k, []).extend(v)
    r.require("pin_list" not in lf and "list" in lf and "high_priority_list" in lf, pop, "pop-never-reads-pin_list",
              "pop takes victims from `list` / `high_priority_list` only (%s)" % {k: sorted({m for m, _ in v}) for k, v in lf.items()},
              "Lru::pop touches the pin list: an entry that was looked up and is still held can be chosen as victim", ln=pop.lo)
    ends = {k: {m for m, _ in v} for k, v in lf.items()}
    r.require(all(m in ("pop_front", "front", "is_empty", "front_mut") for k in ends for m in ends[k]), pop, "pop-from-front",
              "victims are taken from the front (least recently released)", "Lru::pop does not take from the front of its lists: %s" % ends, ln=pop.lo)
    # acquire / release closures (Op::Mutable bodies)
    for name, into_pin in (("acquire", True), ("release", False)):
        fn = F.method(LRU, name, "Eviction")
        bodies = F.descendants(fn)
        if not bodies:
            raise AnchorMissing("Lru::%s has no Op closure" % name)
        calls = {}
        flags = []
        for g in bodies:
            for k, v in list_fields(g).items():
                calls.setdefault(k, set()).update(m for m, _ in v)
            flags += [u for u in tables.field_updates(g, "is_pinned")]
        if into_pin:
            r.require("push_back" in calls.get("pin_list", ()) and any(u["other"] is not None and u["other"].const_val() == 1 for u in flags), fn,
                      "acquire->pin_list", "a looked-up record is moved to the pin list and marked pinned (%s)" % {k: sorted(v) for k, v in calls.items()},
                      "Lru::acquire does not move the record to the pin list / mark it pinned", ln=fn.lo)
        else:
            r.require(any("remove" in m for m in calls.get("pin_list", ())) and any(u["other"] is not None and u["other"].const_val() == 0 for u in flags)
                      and ("push_back" in calls.get("list", ()) or "push_back" in calls.get("high_priority_list", ())), fn,
                      "release->back-of-list", "on last drop the record leaves the pin list, is unmarked and re-enters at the back (%s)" % {k: sorted(v) for k, v in calls.items()},
                      "Lru::release does not move the record from the pin list back to the tail of an evictable list", ln=fn.lo)
    # the operators re-check the record's flags under the lock before touching any list: a record that already left the
    # container (evicted / removed between the last drop's decrement and the lock) must not be re-linked
    for name in ("acquire", "release"):
        fn = F.method(LRU, name, "Eviction")
        for g in F.descendants(fn):
            lops = [b for (fld, ms) in list_fields(g).items() for (m, b) in ms]
            if not lops:
                continue
            ie = g.calls_to(r"Record::<E>::is_in_eviction$")
            ok = bool(ie)
            for c in ie[:1]:
                for (swb, neg) in tables._bool_switches_on(g, c.idx):
                    tt, ft = tables.bool_switch_targets(swb)
                    if neg:
                        tt, ft = ft, tt
                    ok = ok and all(g.edge_guards(swb.idx, tt, b) for b in lops)
            r.require(ok, g, "%s operator re-checks is_in_eviction under the lock" % name, "list operations only for records still in the container",
                      "Lru::%s touches its lists without first re-checking (under the lock) that the record is still in the eviction container" % name, ln=g.lo)
    clr = F.method(LRU, "clear", "Eviction")
    lfc = list_fields(clr)
    r.require("pin_list" in lfc, clr, "clear-drains-pin_list", "clear empties the pin list as well", "Lru::clear leaves pinned records in the pin list", ln=clr.lo)


def acquire_on_lookup(r, F):
    """every successful lookup runs the algorithm's acquire operator, unconditionally (the pin / recency update of a looked-up entry)"""
    for name, acq in (("get_immutable", "acquire_immutable"), ("get_mutable", "acquire_mutable")):
        fn = F.method(SHARD, name)
        gi = fn.calls_to(r"RawCacheShard::<E, S, I>::get_inner$")
        if len(gi) != 1:
            raise AnchorMissing("%s: get_inner not found" % name)
        bodies = [fn] + F.descendants(fn)
        sites = [(g, b) for g in bodies for b in g.calls_to(r"RawCacheShard::<E, S, I>::%s$" % acq)]
        ok = False
        for g, b in sites:
            if g is fn:
                # direct: every path from the Some edge of the lookup passes the acquire
                for (sb, pl, tm, other) in tables.variant_switch_on(fn, gi[0].idx):
                    if "Some" in tm and fn.must_pass(tm["Some"], [b.idx]):
                        ok = True
            else:
                # in the closure handed to Option::inspect/map on the lookup result: unconditional inside the closure, and the closure is applied to the lookup's result
                applied = any(t.term.callee and re.search(r"Option::<T>::(inspect|map|and_then)$", t.term.callee) and any(bb == gi[0].idx for bb, _ in backslice(fn, t.term.args[0], "prov").calls)
                              for t in fn.calls())
                ok = applied and g.must_pass(0, [b.idx])
        r.require(ok, fn, "%s: hit -> %s on every path" % (name, acq), "a looked-up record is always acquired (pinned / marked) before its handle is returned",
                  "RawCacheShard::%s does not run the acquire operator for every hit: under LRU a looked-up entry whose handle is held is not moved to the pin list and can "
                  "be chosen as an eviction victim" % name, ln=gi[0].term.ln)
    # and release on last drop: both release arms call the matching release op under the lock
    dr = F.method(ENTRY, "drop", "Drop")
    rels = {g.calls_to(r"RawCacheShard::<E, S, I>::release_(im)?mutable$")[0].term.callee.rsplit("::", 1)[-1] for g in F.descendants(dr) if g.calls_to(r"RawCacheShard::<E, S, I>::release_(im)?mutable$")}
    r.require(rels == {"release_immutable", "release_mutable"}, dr, "last drop releases through the matching operator", "Immutable -> release_immutable (read lock), Mutable -> release_mutable (write lock)",
              "RawCacheEntry::drop does not dispatch to both release operators: %s" % sorted(rels), ln=dr.lo)
    # ... and on EVERY path: `last handle` is a fact about the record, whichever handle (lookup, insert, fetch) happens to be dropped last. From the
    # refs==0 edge, every path that does not take the disk-only (phantom) hand-off reaches E::release(), and each operator arm runs its release closure.
    decs = dr.calls_to(DEC)
    relop = [b.idx for b in dr.calls_to(r"^foyer_memory::eviction::Eviction::release$")]
    ph = dr.calls_to(r"Properties::phantom$")
    if len(decs) != 1 or len(relop) != 1 or len(ph) != 1:
        raise AnchorMissing("RawCacheEntry::drop: dec_refs / Eviction::release / Properties::phantom not found exactly once")
    found = tables.find_cmp(dr, lambda fn, op: op.place is not None and any(bb == decs[0].idx for bb, _ in backslice(fn, op, "prov").calls), tables.role_const(0), "comparison of dec_refs() with 0")
    ph_edges = []
    for b in dr.blocks:
        if b.cleanup or b.term.k != "switch" or b.term.discr.place is None:
            continue
        sl = backslice(dr, b.term.discr, "prov", extra_transparent=[r"Option::<T>::unwrap_or(_default)?$"])
        if any(bb == ph[0].idx for bb, _ in sl.calls):
            tt, ft = tables.bool_switch_targets(b)
            ph_edges.append((b.idx, tt))
    ok = bool(found) and bool(ph_edges)
    for c, fl in found:
        ok = ok and dr.must_pass(c.target("eq", fl), relop, avoid_edges=ph_edges)
    r.require(ok, dr, "last drop of a resident record always reaches the release operator", "from refs==0, every non-phantom path runs E::release() (no further condition such as the handle's source)",
              "RawCacheEntry::drop can skip the release operator although the last reference is gone (an extra condition / early return on the refs==0 path): the pin taken by a lookup is released by "
              "whichever handle drops last — under LRU the record then stays in the pin list with zero references and can never be evicted", ln=dr.lo)
    for (sb, pl, tm, other) in tables.discr_switches(dr):
        if {"Immutable", "Mutable"} <= set(tm):
            for v, meth in (("Immutable", "release_immutable"), ("Mutable", "release_mutable")):
                cl = [g for g in F.descendants(dr) if g.calls_to(r"RawCacheShard::<E, S, I>::%s$" % meth)]
                sites = [b.idx for b in dr.calls() if cl and any(a.place is not None and ("raw.rs:%d:" % cl[0].lo) in (dr.local_ty(a.place.local) or "") for a in b.term.args)]
                r.require(bool(sites) and dr.must_pass(tm[v], sites) and cl[0].must_pass(0, [b.idx for b in cl[0].calls_to(r"RawCacheShard::<E, S, I>::%s$" % meth)]), dr,
                          "Op::%s arm runs %s unconditionally" % (v, meth), "the arm applies the release closure on every path", "the Op::%s arm of RawCacheEntry::drop does not always run %s" % (v, meth), ln=dr.lo)


def outdated(r, F):
    fn = F.method(ENTRY, "is_outdated")
    calls = [b for b in fn.calls() if b.term.callee and b.term.callee.endswith("Record::<E>::is_in_indexer")]
    nots = [s for b in fn.blocks for s in b.stmts if s.k == "assign" and s.rv.k == "un" and s.rv.op == "Not"]
    ok = len(calls) == 1 and len(nots) == 1 and backslice(fn, 0, "prov").has_call(r"is_in_indexer$") and \
        backslice(fn, calls[0].term.args[0], "prov").has_field("record", ENTRY)
    r.require(ok, fn, "is_outdated==!is_in_indexer", "is_outdated is the negation of the record's in-indexer flag",
              "is_outdated is not `!record.is_in_indexer()`", ln=fn.lo)
    # the flag is written only by the Sentry wrapper: true on insert, false on the replaced / removed / drained record
    setters = []
    for f in F.all_fns("P"):
        if not f.crate.name.startswith("foyer"):
            continue
        for b in f.calls_to(r"Record::<E>::set_in_indexer$"):
            setters.append((f, b))
    for f, b in setters:
        root = F.P.get(f.root, f)
        inside = root.self_ty is not None and root.self_ty.startswith("foyer_memory::indexer::sentry::Sentry")
        r.require(inside, f, "set_in_indexer-only-in-Sentry", "flag written by the Sentry indexer wrapper",
                  "the in-indexer flag is written outside the Sentry wrapper: is_outdated can lie", ln=b.term.ln)
    S = "foyer_memory::indexer::sentry::Sentry"
    ins = F.method(S, "insert", "Indexer")
    vals = {}
    for g in [ins] + F.descendants(ins):
        for b in g.calls_to(r"set_in_indexer$"):
            vals.setdefault(b.term.args[1].const_val(), []).append((g, b))
    uncond_ins = all(g.must_pass(0, [x.idx for x in g.calls_to(r"set_in_indexer$")]) for v in vals.values() for g, _ in v)
    r.require(1 in vals and 0 in vals and uncond_ins, ins, "Sentry::insert sets true/new false/old", "insert marks the new record and unmarks the replaced one",
              "Sentry::insert does not set the flag on the new record and clear it on the replaced one", ln=ins.lo)
    if 1 in vals:
        g, b = vals[1][0]
        inner = g.calls_to(r"^foyer_memory::indexer::Indexer::insert$")
        r.require(2 in backslice(g, b.term.args[0], "prov").args, g, "true-on-inserted-record", "the flag is set on the record being inserted",
                  "set_in_indexer(true) is not applied to the record being inserted", ln=b.term.ln)
    for name in ("remove", "drain"):
        fn2 = F.method(S, name, "Indexer")
        bodies = [fn2] + F.descendants(fn2)
        cs = [(g, b) for g in bodies for b in g.calls_to(r"set_in_indexer$")]
        # ... on every path of the body that performs it (no further condition inside the inspect closure / after the call)
        uncond = all(g.must_pass(0, [x.idx for x in g.calls_to(r"set_in_indexer$")]) for g, _ in cs)
        r.require(bool(cs) and uncond and all(b.term.args[1].const_val() == 0 for _, b in cs), fn2, "Sentry::%s clears flag" % name,
                  "records leaving the index are unmarked", "Sentry::%s does not clear the in-indexer flag of the records it hands out" % name, ln=fn2.lo)


def immutable(r, F):
    """who-may-write: no assignment through a Record.data projection, and no `&mut` borrow of it, anywhere"""
    REC = "foyer_memory::record::Record"
    n = 0
    for f in F.all_fns("P"):
        if not f.crate.name.startswith("foyer"):
            continue
        for b in f.blocks:
            for s in b.stmts:
                if s.k != "assign":
                    continue
                n += 1
                fo = s.place.field_ofs()
                if any(of == REC and nm == "data" for of, nm in fo):
                    r.fail(f, "write-through-Record.data", "a live record's key/value/properties/weight/hash is assigned", ln=s.ln)
                if s.rv.k in ("ref", "rawptr") and s.rv.j.get("m") in ("mut", "Mut"):
                    fo2 = s.rv.place.field_ofs()
                    if any(of == REC and nm == "data" for of, nm in fo2):
                        r.fail(f, "&mut Record.data", "a mutable borrow of a live record's data is taken", ln=s.ln)
    # no function hands out `&mut` / `*mut` derived from Record.data, and no pointer derived from it is cast to `*mut`
    for f in F.all_fns("P"):
        if not f.crate.name.startswith("foyer"):
            continue
        rt = f.local_ty(0)
        if rt.startswith("&mut") or rt.startswith("*mut"):
            sl = backslice(f, 0, "prov")
            if any(of == REC and nm == "data" for of, nm in sl.fields):
                r.fail(f, "returns &mut into Record.data", "a mutable reference / pointer into a live record's data is handed out", ln=f.lo)
        for b in f.blocks:
            for s in b.stmts:
                if s.k == "assign" and s.rv.k == "cast" and f.ty(s.rv.j["t"]).startswith("*mut") and s.rv.ops and s.rv.ops[0].place is not None:
                    sl = backslice(f, s.rv.ops[0], "prov")
                    if any(of == REC and nm == "data" for of, nm in sl.fields):
                        r.fail(f, "cast to *mut of Record.data", "a pointer into a live record's data is cast to `*mut`", ln=s.ln)
    # accessors return shared borrows of the stored fields
    for acc, fld in (("key", "key"), ("value", "value"), ("properties", "properties")):
        fn = F.method(REC, acc)
        ok = fn.local_ty(0).startswith("&") and not fn.local_ty(0).startswith("&mut") and backslice(fn, 0, "prov").has_field(fld, "foyer_memory::record::Data")
        r.require(ok, fn, "Record::%s -> &Data.%s" % (acc, fld), "shared borrow of the stored field", "Record::%s does not return a shared borrow of Data.%s" % (acc, fld), ln=fn.lo)
    r.ok("foyer_*", "no-write-through-Record.data", "%d assignments inspected, none writes or mutably borrows Record.data" % n)


def piece_ownership(r, F):
    """a Piece is a type-erased strong reference to a Record (raw Arc pointer): one strong count per Piece — taken over from the Arc in `new`, added in `clone`,
    given back exactly once by `drop` (through the erased drop fn) or by `into_record` (which disarms the drop fn); key / value / properties point into the same record"""
    P = "foyer_memory::pipe::Piece"
    new = F.method(P, "new")
    ir = new.calls_to(r"Arc::<T>::into_raw$")
    okn = len(ir) == 1 and new.must_pass(0, [ir[0].idx]) and 1 in backslice(new, ir[0].term.args[0], "prov").args
    res = [st for b in new.blocks if not b.cleanup for st in b.stmts if st.k == "assign" and st.rv.k == "agg" and (st.rv.j.get("adt") or "").endswith("pipe::Piece")]
    if okn and len(res) == 1:
        fl = dict(res[0].rv.agg_fields())
        from_raw = lambda o: any(bb == ir[0].idx for bb, _ in backslice(new, o, "dep").calls)
        acc = {"key": r"Record::<E>::key$", "value": r"Record::<E>::value$", "properties": r"Record::<E>::properties$", "hash": r"Record::<E>::hash$"}
        okn = from_raw(fl["record"]) and all(backslice(new, fl[k], "dep").has_call(pat) and from_raw(fl[k]) for k, pat in acc.items())
        cl = [g for g in F.descendants(new) if g.calls_to(r"Arc::<T>::from_raw$")]
        okn = okn and len(cl) == 1 and cl[0].must_pass(0, [b.idx for b in cl[0].calls_to(r"Arc::<T>::from_raw$")])
    else:
        okn = False
    r.require(okn, new, "Piece::new takes over the Arc", "record := Arc::into_raw(arg); key/value/hash/properties read through it; drop_fn := |p| drop(Arc::from_raw(p))",
              "Piece::new does not take the strong count over with Arc::into_raw, or its pointers / erased drop function do not belong to that record", ln=new.lo)
    dr = F.method(P, "drop", "Drop")
    ind = [b for b in dr.blocks if not b.cleanup and b.term.k == "call" and b.term.callee is None]
    okd = len(ind) == 1 and dr.must_pass(0, [ind[0].idx]) and backslice(dr, ind[0].term.args[0], "prov").has_field("record", P)
    r.require(okd, dr, "Piece::drop gives its count back", "(self.drop_fn)(self.record) on every path", "Piece::drop does not call the erased drop function with its record pointer on every path: every Piece leaks a strong "
              "count (the record, its key and value are never freed) or frees someone else's", ln=dr.lo)
    cl = F.method(P, "clone", "Clone")
    inc = cl.calls_to(r"Arc::<T>::increment_strong_count$")
    okc = len(inc) == 1 and cl.must_pass(0, [inc[0].idx]) and backslice(cl, inc[0].term.args[0], "prov").has_field("record", P)
    res = [st for b in cl.blocks if not b.cleanup for st in b.stmts if st.k == "assign" and st.rv.k == "agg" and (st.rv.j.get("adt") or "").endswith("pipe::Piece")]
    if okc and len(res) == 1:
        for k, o in res[0].rv.agg_fields():
            okc = okc and backslice(cl, o, "prov").has_field(k, P)
    else:
        okc = False
    r.require(okc, cl, "Piece::clone adds one count and copies every field", "increment_strong_count(self.record); each field from the same field of self",
              "Piece::clone does not add a strong count for the new Piece (its drop then frees the record while the original still points at it) or mixes up the copied pointers", ln=cl.lo)
    ir_ = F.method(P, "into_record")
    fr = ir_.calls_to(r"Arc::<T>::from_raw$")
    dis = [st for b in ir_.blocks if not b.cleanup for st in b.stmts if st.k == "assign" and st.place.fields()[-1:] == ["drop_fn"]]
    oki = len(fr) == 1 and backslice(ir_, fr[0].term.args[0], "prov").has_field("record", P) and len(dis) == 1 and ir_.must_pass(0, [b.idx for b in ir_.blocks if dis[0] in b.stmts]) and \
        all(not g.calls() for g in F.descendants(ir_))
    r.require(oki, ir_, "Piece::into_record hands the count to the Arc and disarms drop", "drop_fn := no-op before Arc::from_raw(self.record)",
              "Piece::into_record rebuilds the Arc without disarming the Piece's drop function (double free) or from another pointer", ln=ir_.lo)


def run(chk, F):
    chk.run_rule("C18.refs-paired", "every reference-count increment ends in a handle whose drop decrements it; release only at zero", 14, refs_paired, F)
    chk.run_rule("C18.acquire-on-lookup", "every lookup hit runs the acquire operator unconditionally; the last drop runs the matching release operator on every non-phantom path", 6, acquire_on_lookup, F)
    chk.run_rule("C18.lru-pin", "LRU: pop never reads the pin list; acquire pins, release unpins to the tail, clear drains it", 5, lru_pin, F)
    chk.run_rule("C18.outdated", "is_outdated == !in-indexer flag, and only the Sentry index wrapper writes the flag (true on insert, false on leave)", 6, outdated, F)
    chk.run_rule("C18.piece-ownership", "one strong count per Piece: taken over in new, added in clone, returned once by drop or into_record", 4, piece_ownership, F)
    chk.run_rule("C18.immutable", "no code path assigns to or mutably borrows Record.data; accessors return shared borrows", 4, immutable, F)


def thorough(chk):
    """type-level witnesses: `&mut` to cached data must not type-check (compile-fail doc-tests with compiling twins)"""
    from sa import witness
    r = chk.rule("C18.witness", "compile-fail witnesses: no `&mut` to a cached key/value through a handle (each with a compiling twin)", 1)
    ok, cf, tw, cfb, twb, tail = witness.run()
    r.require(ok, "witness/src/lib.rs", "compile_fail witnesses + twins", "%d witnesses fail to compile with the pinned error code, %d twins compile" % (cf, tw),
              "a witness compiled (a handle now hands out `&mut` to cached data) or a twin stopped compiling (%d/%d bad): %s" % (cfb, twb, tail[-400:]))
