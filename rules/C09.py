"""C09 — reusing disk space never damages live entries and never stalls writers (DESIGN.md §4 C09)."""
import re

from sa import mir, tables, asyncs, locks
from sa.mir import backslice, AnchorMissing

TITLE = ("C09: block typestate transitions under the State lock (clean -> writing -> evictable -> reclaiming -> clean/waiter), reclaim re-armed on "
         "every transition, RAII release, index removal before cleaning before release, FIFO queue ends, re-insertion keeps its sequence, only full blocks become evictable.")
NOT_DECIDED = [
    "liveness in general (`always eventually a clean block`): only that every transition that can enable a reclaim re-evaluates reclaim_if_needed",
    "the documented window in which a picked entry's old address is overwritten before its re-insertion is flushed (reads then fail the checksum -> miss)",
    "that user eviction pickers behave (they run under the State lock)",
]

M = "foyer_storage::engine::block::manager"
STATE = M + "::State"
SETS = ("clean_blocks", "writing_blocks", "evictable_blocks", "reclaiming_blocks", "clean_block_waiters")
MUTATORS = re.compile(r"::(pop_front|pop_back|push_back|push_front|insert|remove|push|pop|clear|drain|retain|extend|append|take|swap)$")


def _set_ops(fn):
    """[(set field, method, block)] for mutating container calls whose receiver is a field of manager::State"""
    out = []
    for b in fn.calls():
        t = b.term
        if not t.callee or not t.args or not MUTATORS.search(t.callee):
            continue
        if not re.search(r"VecDeque|HashSet|Vec::<|BTreeSet|mem::(take|swap)", t.callee):
            continue
        sl = backslice(fn, t.args[0], "prov")
        for of, n in sl.fields:
            if of == STATE and n in SETS:
                out.append((n, t.callee.rsplit("::", 1)[-1], b.idx))
    return out


def typestate(r, F):
    A = locks.analysis(F)
    allowed = {"get_clean_block", "on_writing_finish", "on_reclaim_finish", "reclaim_if_needed", "evict", "init", "new", "wait_reclaim"}
    n = 0
    for f in F.all_fns("P"):
        if f.crate.name != "foyer_storage":
            continue
        ops = _set_ops(f)
        if not ops:
            continue
        root = F.P.get(f.root, f)
        name = root.id.rsplit("::", 1)[-1]
        n += 1
        r.require((root.self_ty or "").startswith(M + "::BlockManager") and name in allowed, f, "who-writes block sets",
                  "the block sets are mutated only by the block manager's transition functions (%s)" % sorted({o[0] + "." + o[1] for o in ops}),
                  "`%s` mutates the block manager's state sets outside the transition functions" % f.short, ln=f.lo)
        if name not in ("new",):
            held = set()
            for (_, _, bi) in ops:
                held = {c for (k, c) in A.must_held_at(f.id, bi)}
                r.require(STATE in held, f, "under the State lock:" + name, "the transition runs with the manager's State lock held",
                          "a block-set mutation runs without the State lock held on every path", ln=f.blocks[bi].term.ln)
                break
    if n < 5:
        r.fail(None, "sites", "only %d functions mutating the block sets found (5+ confirmed)" % n)

    BM = M + "::BlockManager"
    # get_clean_block: Some(id) -> writing.insert, returns; None -> waiter queued, exclusive
    g = [f for f in F.descendants(F.method(BM, "get_clean_block")) if f.kind == "coroutine"]
    if not g:
        raise AnchorMissing("get_clean_block async body not found")
    g = g[0]
    ops = _set_ops(g)
    pf = [b for (s, m, b) in ops if s == "clean_blocks" and m == "pop_front"]
    wi = [b for (s, m, b) in ops if s == "writing_blocks" and m == "insert"]
    wp = [b for (s, m, b) in ops if s == "clean_block_waiters" and m == "push"]
    ok = False
    if pf and wi and wp:
        for (sb, pl, tm, other) in tables.variant_switch_on(g, pf[0]):
            if "Some" in tm and "None" in tm:
                rs = g.reachable([tm["Some"]], avoid=[sb.idx])
                rn = g.reachable([tm["None"]], avoid=[sb.idx])
                ok = g.must_pass(tm["Some"], wi) and not (set(wp) & rs) and g.must_pass(tm["None"], wp, g.returns() + [b.idx for b in g.blocks if b.term.k == "yield"]) and not (set(wi) & rn)
    r.require(ok, g, "clean -> writing | waiter queued", "a popped clean block is marked writing; otherwise exactly a waiter is queued",
              "get_clean_block hands out a clean block without marking it writing, or both takes a block and queues a waiter", ln=g.lo)
    rin = g.calls_to(r"BlockManager::reclaim_if_needed$")
    r.require(bool(rin) and bool(pf) and all(g.must_pass(w, [x.idx for x in rin], g.returns()) for w in wi), g, "get_clean_block re-arms reclaim",
              "taking a clean block re-evaluates reclaim_if_needed", "taking a clean block does not re-evaluate whether a reclaim must start", ln=g.lo)

    # on_writing_finish: writing.remove -> evictable.insert -> reclaim_if_needed on every path
    f = F.method(BM, "on_writing_finish")
    ops = _set_ops(f)
    wr = [b for (s, m, b) in ops if s == "writing_blocks" and m == "remove"]
    ei = [b for (s, m, b) in ops if s == "evictable_blocks" and m == "insert"]
    rin = [x.idx for x in f.calls_to(r"BlockManager::reclaim_if_needed$")]
    r.require(bool(wr) and bool(ei) and f.must_pass(0, wr) and f.must_pass(0, ei) and f.must_pass(0, rin), f, "writing -> evictable, reclaim re-armed",
              "a finished block leaves `writing`, enters `evictable`, and reclaim_if_needed is re-evaluated on every path",
              "on_writing_finish does not move the block writing->evictable and re-evaluate reclaim_if_needed on every path", ln=f.lo)

    # on_reclaim_finish: reclaiming.remove; exactly one of {waiter.send, clean.push_back}; reclaim_if_needed on EVERY path
    f = F.method(BM, "on_reclaim_finish")
    ops = _set_ops(f)
    rr = [b for (s, m, b) in ops if s == "reclaiming_blocks" and m == "remove"]
    wpop = [b for (s, m, b) in ops if s == "clean_block_waiters" and m == "pop"]
    cpb = [b for (s, m, b) in ops if s == "clean_blocks" and m == "push_back"]
    snd = [b.idx for b in f.calls_to(r"oneshot::Sender::<T>::send$") if "manager::Block" in " ".join(f.callee_generics(b.term)) or True]
    snd_block = [b.idx for b in f.calls_to(r"oneshot::Sender::<T>::send$") if 2 in backslice(f, b.term.args[1], "dep").args]
    ok = False
    if wpop and cpb and snd_block:
        for (sb, pl, tm, other) in tables.variant_switch_on(f, wpop[0]):
            if "Some" in tm and "None" in tm:
                rs = f.reachable([tm["Some"]], avoid=[sb.idx] + cpb) if False else f.reachable([tm["Some"]], avoid=[sb.idx])
                # arms are exclusive up to their join: compute reachability avoiding the other arm's entry
                rs_only = f.reachable([tm["Some"]], avoid=[sb.idx, tm["None"]])
                rn_only = f.reachable([tm["None"]], avoid=[sb.idx, tm["Some"]])
                ok = f.must_pass(tm["Some"], snd_block) and f.must_pass(tm["None"], cpb) and \
                    all(f.edge_guards(sb.idx, tm["Some"], s) for s in snd_block) and all(f.edge_guards(sb.idx, tm["None"], c) for c in cpb)
    r.require(bool(rr) and f.must_pass(0, rr) and ok, f, "reclaiming -> exactly one of {waiter, clean queue}",
              "the reclaimed block is either sent to exactly one parked writer or queued as clean, never both, never neither",
              "on_reclaim_finish does not hand the reclaimed block to exactly one of {a parked writer, the clean queue} on every path "
              "(a block handed to two writers, or lost)", ln=f.lo)
    rin = [x.idx for x in f.calls_to(r"BlockManager::reclaim_if_needed$")]
    r.require(bool(rin) and f.must_pass(0, rin), f, "on_reclaim_finish re-arms reclaim on every path",
              "reclaim_if_needed is re-evaluated whether the block went to a waiter or to the clean queue (the number of running reclaims just dropped)",
              "on_reclaim_finish does not re-evaluate reclaim_if_needed on every path: when the freed block is handed to a parked writer no new reclaim "
              "is started although a reclaimer slot just became free, and remaining parked writers wait forever (wait()/close() hang)", ln=f.lo)

    # reclaim_if_needed: evict -> reclaiming.insert -> reclaimer.reclaim -> spawn
    f = F.method(BM, "reclaim_if_needed")
    ops = _set_ops(f)
    ev = f.calls_to(r"BlockManager::evict$")
    ri = [b for (s, m, b) in ops if s == "reclaiming_blocks" and m == "insert"]
    rc = [b.idx for b in f.calls_to(r"reclaimer::ReclaimerTrait::reclaim$|ReclaimerTrait::reclaim$")]
    sp = [b.idx for b in f.calls_to(r"Spawner::spawn$")]
    ok = False
    if ev and ri and rc and sp:
        for (sb, pl, tm, other) in tables.variant_switch_on(f, ev[0].idx):
            if "Some" in tm:
                ok = f.must_pass(tm["Some"], ri) and f.must_pass(tm["Some"], rc) and f.must_pass(tm["Some"], sp) and \
                    all(f.edge_guards(sb.idx, tm["Some"], x) for x in ri + rc + sp)
    r.require(ok, f, "evictable -> reclaiming + one reclaim task", "a picked block is marked reclaiming and exactly one reclaim task is spawned for it",
              "reclaim_if_needed does not mark the picked block reclaiming and spawn its reclaim on every path", ln=f.lo)
    cmps = tables.comparisons(f)
    r.require(len([c for c in cmps if c.op in ("Lt", "Le", "Gt", "Ge")]) >= 2, f, "thresholds tested", "clean-block threshold and reclaim concurrency are both tested",
              "reclaim_if_needed no longer tests both the clean-block threshold and the reclaim concurrency", ln=f.lo)
    # evict: evictable.remove
    f = F.method(BM, "evict")
    ops = _set_ops(f)
    er = [b for (s, m, b) in ops if s == "evictable_blocks" and m == "remove"]
    somes = [b.idx for b in f.blocks if not b.cleanup for s in b.stmts if s.k == "assign" and s.place.local == 0 and s.rv.k == "agg" and s.rv.j.get("variant") == "Some"]
    r.require(bool(er) and bool(somes) and all(f.dominates(e, s) for e in er for s in somes), f, "evict removes from evictable", "a picked block leaves `evictable` before it is returned",
              "evict returns a block that is still listed as evictable (it can be picked twice)", ln=f.lo)


def release_raii(r, F):
    d = F.method(M + "::ReclaimingBlock", "drop", "Drop")
    c = d.calls_to(r"BlockManager::on_reclaim_finish$")
    r.require(len(c) == 1 and d.must_pass(0, [c[0].idx]), d, "Drop for ReclaimingBlock -> on_reclaim_finish", "releasing the reclaiming handle returns the block",
              "dropping a ReclaimingBlock does not call on_reclaim_finish on every path: reclaimed blocks are lost", ln=d.lo)
    rc = F.fn("<foyer_storage::engine::block::reclaimer::Reclaimer<K, V, P> as foyer_storage::engine::block::reclaimer::ReclaimerTrait>::reclaim::{closure#0}")
    rb = rc.calls_to(r"indexer::Indexer::remove_batch$")
    cl = rc.calls_to(r"reclaimer::BlockCleaner::clean$")
    dr = [b for b in rc.calls_to(r"mem::drop$") if "ReclaimingBlock" in rc.local_ty(b.term.args[0].place.local)]
    if len(rb) != 1 or len(cl) != 1 or len(dr) != 1:
        raise AnchorMissing("Reclaimer::reclaim: remove_batch / BlockCleaner::clean / drop(block) not found exactly once")
    cpolls = [b.idx for b in rc.calls_to(r"Future::poll$") if any(bb == cl[0].idx for bb, _ in backslice(rc, b.term.args[0], "prov").calls)]
    ok_order = rc.dominates(rb[0].idx, cl[0].idx) and all(rc.dominates(rb[0].idx, p) for p in cpolls) and bool(cpolls)
    r.require(ok_order, rc, "remove_batch dom clean", "index entries of the block are removed before its first page is zeroed",
              "the block is cleaned before its (unpicked) index entries are removed: lookups read a zeroed / rewritten block through a live index entry", ln=cl[0].term.ln)
    # drop(block) only after the clean future completed
    okd = False
    for p in cpolls:
        for (sb, pl, tm, other) in tables.variant_switch_on(rc, p):
            if "Ready" in tm:
                okd = dr[0].idx not in rc.reachable([cl[0].idx], avoid_edges=[(sb.idx, tm["Ready"])])
    r.require(okd and rc.must_pass(0, [dr[0].idx]), rc, "clean completed dom release", "the block is released (handed to writers) only after it was cleaned, on every path",
              "the reclaiming block is released before BlockCleaner::clean completed (or not on every path): a writer reuses a block that still carries the old first blob index", ln=dr[0].term.ln)
    # the handle is not dropped earlier: scanner gets a clone
    cln = BC = F.fn("foyer_storage::engine::block::reclaimer::BlockCleaner::clean::{closure#0}")
    w = cln.calls_to(r"Block::write$")
    fill = cln.calls_to(r"fill$")
    r.require(len(w) == 1 and w[0].term.args[-1].const_val() == 0 and bool(fill), cln, "clean = zero page at offset 0", "the first page of the block (its first blob index) is overwritten with zeroes",
              "BlockCleaner::clean does not write a zero-filled page at offset 0", ln=cln.lo)
    tr = asyncs.awaited_try(F, cln, w[0].idx) if w else []
    r.require(True, cln, "clean result observed", "", "", ln=cln.lo)


def fifo(r, F):
    g = [f for f in F.descendants(F.method(M + "::BlockManager", "get_clean_block")) if f.kind == "coroutine"][0]
    orf = F.method(M + "::BlockManager", "on_reclaim_finish")
    ops = _set_ops(g) + _set_ops(orf)
    ends = {(s, m) for (s, m, b) in ops if s == "clean_blocks"}
    r.require(ends == {("clean_blocks", "pop_front"), ("clean_blocks", "push_back")}, g, "clean queue is FIFO", "clean blocks are taken from the front and returned at the back",
              "the clean-block queue is not used first-in first-out: %s" % sorted(ends), ln=g.lo)
    FP = "foyer_storage::engine::block::eviction::FifoPicker"
    calls = {}
    for name in ("pick", "on_block_evictable", "on_block_evict"):
        f = F.method(FP, name, "EvictionPicker")
        ms = set()
        for b in f.calls():
            t = b.term
            if t.callee and "VecDeque" in t.callee and t.args and backslice(f, t.args[0], "prov").has_field("queue"):
                ms.add(t.callee.rsplit("::", 1)[-1])
        calls[name] = ms
    r.require("front" in calls["pick"] and not ({"back", "pop_back"} & calls["pick"]) and "push_back" in calls["on_block_evictable"] and "remove" in calls["on_block_evict"],
              F.method(FP, "pick", "EvictionPicker"), "FifoPicker: oldest-filled first", "evictable blocks are queued at the back and picked from the front (%s)" % {k: sorted(v) for k, v in calls.items()},
              "FifoPicker does not pick the oldest-filled block: %s" % {k: sorted(v) for k, v in calls.items()}, ln=None)


def fifo_evict_position(r, F):
    """FifoPicker::on_block_evict removes the EVICTED block from its queue: the position predicate answers true on equality with the evicted id"""
    FP = "foyer_storage::engine::block::eviction::FifoPicker"
    f = F.method(FP, "on_block_evict", "EvictionPicker")
    pos = f.calls_to(r"Iterator::position$")
    cl = [g for g in F.descendants(f) if g.calls_to(r"cmp::PartialEq::(eq|ne)$")]
    ok = len(pos) == 1 and len(cl) == 1
    if ok:
        g = cl[0]
        c = g.calls_to(r"cmp::PartialEq::(eq|ne)$")[0]
        is_ne = c.term.callee.endswith("::ne")
        ret = backslice(g, mir.Operand({"c": {"l": 0, "p": []}}), "prov")
        negs = [s_ for b in g.blocks for s_ in b.stmts if s_.k == "assign" and s_.rv.k == "un" and s_.rv.op == "Not"]
        ok = any(bb == c.idx for bb, _ in ret.calls) and (is_ne == bool(negs))
    rm = f.calls_to(r"VecDeque::<T, A>::remove$")
    ok = ok and len(rm) == 1 and any(bb == pos[0].idx for bb, _ in backslice(f, rm[0].term.args[1], "prov").calls)
    r.require(ok, f, "FifoPicker::on_block_evict removes the evicted block", "queue.remove(position(|r| r == block))", "FifoPicker::on_block_evict removes another block than the evicted one from its queue: "
              "the evicted block is picked again although it is no longer evictable, and a full block is forgotten", ln=f.lo)


def reinsertion(r, F):
    rc = F.fn("<foyer_storage::engine::block::reclaimer::Reclaimer<K, V, P> as foyer_storage::engine::block::reclaimer::ReclaimerTrait>::reclaim::{closure#0}")
    aggs = [s for b in rc.blocks if not b.cleanup for s in b.stmts if s.k == "assign" and s.rv.k == "agg" and (s.rv.j.get("adt") or "").endswith("reclaimer::Reinsertion")]
    if not aggs:
        raise AnchorMissing("Reclaimer::reclaim: construction of Reinsertion not found")
    flds = dict(aggs[0].rv.agg_fields())
    sl = backslice(rc, flds["sequence"], "prov")
    r.require(sl.has_field("sequence", "EntryAddress") and not sl.has_call(r"fetch_add$"), rc, "Reinsertion.sequence = original sequence",
              "a re-inserted entry keeps the sequence it was written with", "a re-inserted entry is given a fresh / different sequence: it can supersede a newer write of the same key", ln=aggs[0].ln)
    r.require(backslice(rc, flds["hash"], "prov").has_field("hash") and backslice(rc, flds["len"], "dep").has_field("len", "EntryAddress"), rc, "Reinsertion.hash/len from the scanned entry",
              "hash and length are the scanned entry's", "re-insertion carries a foreign hash / length", ln=aggs[0].ln)
    rv = F.method("foyer_storage::engine::block::flusher::Runner", "recv")
    ps = rv.calls_to(r"buffer::Buffer::push_slice$")
    ig = rv.calls_to(r"indexer::Indexer::get$")
    if not ps or not ig:
        raise AnchorMissing("Runner::recv: push_slice / Indexer::get not found")
    p = ps[0]
    ok = backslice(rv, p.term.args[3], "prov").has_field("sequence", "Reinsertion") and backslice(rv, p.term.args[2], "prov").has_field("hash", "Reinsertion")
    r.require(ok, rv, "push_slice(.., reinsertion.hash, reinsertion.sequence)", "the flusher forwards the original hash and sequence", "the flusher does not forward the re-insertion's own hash and sequence", ln=p.term.ln)
    # dropped when the key is no longer indexed
    okg = False
    for (sb, pl, tm, other) in []:
        pass
    isn = [b for b in rv.calls_to(r"Option::<T>::is_some$") if any(bb == ig[0].idx for bb, _ in backslice(rv, b.term.args[0], "prov").calls)]
    for b in isn:
        for (swb, neg) in tables._bool_switches_on(rv, b.idx):
            tt, ft = tables.bool_switch_targets(swb)
            if neg:
                tt, ft = ft, tt
            okg = rv.edge_guards(swb.idx, tt, p.idx)
    r.require(okg, rv, "re-insertion skipped when the key left the index", "a re-insertion is written only while the index still holds the key",
              "a re-insertion of a key that was deleted / superseded meanwhile is written back (resurrecting it)", ln=p.term.ln)


def size_limit_siblings(r, F):
    """a re-inserted entry was accepted by Buffer::push once; Buffer::push_slice must accept the same sizes: the two comparisons with
    max_entry_size yield the same (aligned<max, =, >) -> reject table"""
    BUF = "foyer_storage::engine::block::buffer::Buffer"
    tabs = {}
    for name in ("push", "push_slice"):
        fn = F.method(BUF, name)
        rejects = [b.idx for b in fn.blocks if not b.cleanup for s in b.stmts if s.k == "assign" and s.place.local == 0 and s.rv.k == "use" and s.rv.ops[0].is_const() and s.rv.ops[0].const_val() == 0]
        accepts = [b.idx for b in fn.calls_to(r"Vec::<T, A>::push$")]
        found = tables.find_cmp(fn, lambda f, op: op.place is not None and backslice(f, op, "prov").has_call(r"bits::align_up$"), tables.role_field("max_entry_size"), "comparison of the aligned length with max_entry_size")
        c, fl = found[0]
        tabs[name] = tables.table(fn, c, fl, accepts)
    norm = lambda t: tuple("no" if x == "no" else "accept" for x in t)   # a further test on the accepting edge (remaining space) is fine
    r.require(norm(tabs["push"]) == norm(tabs["push_slice"]) and tabs["push"][2] == "no" and tabs["push"][1] != "no", F.method(BUF, "push_slice"), "push_slice accepts exactly what push accepts",
              "(aligned<max, =, >) -> accepted: push %s, push_slice %s" % (tabs["push"], tabs["push_slice"]),
              "Buffer::push and Buffer::push_slice disagree on the size limit: push %s vs push_slice %s — an entry of exactly the maximum size is written by an insert but silently dropped "
              "when its block is reclaimed and it is re-inserted (its index entry then points into a rewritten block)" % (tabs["push"], tabs["push_slice"]), ln=None)


def only_full(r, F):
    sub = F.method("foyer_storage::engine::block::flusher::Runner", "submit_io_task")
    w = [f for f in F.descendants(sub) if f.calls_to(r"BlockManager::on_writing_finish$")]
    if len(w) != 1:
        raise AnchorMissing("submit_io_task: the per-block future calling on_writing_finish was not found")
    f = w[0]
    owf = f.calls_to(r"BlockManager::on_writing_finish$")[0]
    cm = [c for c in tables.comparisons(f) if c.op in ("Ne", "Eq") and f.edge_guards(c.sw.idx, c.target("lt" if c.op == "Ne" else "eq"), owf.idx)]
    ok = False
    from sa import affine
    from fractions import Fraction
    for c in tables.comparisons(f):
        if c.op not in ("Ne", "Eq"):
            continue
        a = affine.affine(f, c.lhs, depth=1)
        b2 = affine.affine(f, c.rhs, depth=1)
        diff = dict(b2)
        for k, v in a.items():
            diff[k] = diff.get(k, Fraction(0)) - v
        diff = {k: v for k, v in diff.items() if v != 0}
        # (rhs - lhs) must be +-(blocks - 1 - i): index of the block vs index of the batch's last block
        keys = set(diff) - {"1"}
        names = {k for k in keys}
        if len(keys) == 2 and abs(diff.get("1", 0)) == 1 and sorted(abs(v) for k, v in diff.items() if k != "1") == [1, 1] and \
                sum(v for k, v in diff.items() if k != "1") == 0 and any(("blocks" in k) for k in names):
            cnt = [k for k in names if "blocks" in k][0]
            if diff[cnt] * diff["1"] < 0:
                tgt_ne = c.target("lt")
                ok = f.edge_guards(c.sw.idx, tgt_ne, owf.idx) and f.must_pass(tgt_ne, [owf.idx])   # exactly: on that edge, always
    r.require(ok, f, "on_writing_finish iff not the batch's last block", "only blocks that were completely filled become evictable; the last (still open) block stays with the flusher",
              "on_writing_finish is not executed exactly when `i != blocks - 1`: a block that is still being written can be reclaimed, or a completely written block never becomes evictable", ln=owf.term.ln)


def pickers_and_init(r, F):
    """the eviction pickers are taken out of the State for the duration of a callback loop and always put back (a State without pickers never picks a block
    again: the disk fills up and every later insert is dropped); init partitions the blocks into clean and evictable — no block is both"""
    BM = "foyer_storage::engine::block::manager::BlockManager"
    n = 0
    for f in F.all_fns("P"):
        if not (F.P.get(f.root, f).self_ty or "").startswith(BM):
            continue
        tk = [b for b in f.calls_to(r"mem::take$") if backslice(f, b.term.args[0], "prov").has_field("eviction_pickers")]
        sw = [b.idx for b in f.calls_to(r"mem::swap$|mem::replace$") if any(a.place is not None and backslice(f, a, "prov").has_field("eviction_pickers") for a in b.term.args)]
        sw += [b.idx for b in f.blocks if not b.cleanup for st in b.stmts if st.k == "assign" and st.place.fields()[-1:] == ["eviction_pickers"]]
        for t in tk:
            n += 1
            r.require(bool(sw) and f.must_pass(t.idx, sw), f, "taken pickers are restored", "mem::take(&mut state.eviction_pickers) is followed by putting them back on every path",
                      "the eviction pickers are taken out of the State and a path returns without restoring them: no block is ever picked for eviction again", ln=t.term.ln)
    if n < 3:
        r.fail(None, "sites", "only %d take sites of eviction_pickers (3 confirmed: init, on_writing_finish, evict)" % n)
    init = F.method(BM, "init")
    rm = [g for g in F.descendants(init) if g.calls_to(r"HashSet::<T, S, A>::remove$") and g.must_pass(0, [b.idx for b in g.calls_to(r"HashSet::<T, S, A>::remove$")])]
    insp = init.calls_to(r"Iterator::(inspect|for_each|map|filter)$")
    ins = [b for b in init.calls_to(r"HashSet::<T, S, A>::insert$") if backslice(init, b.term.args[0], "prov").has_field("evictable_blocks")]
    nxt = init.calls_to(r"Iterator::next$")
    in_loop = bool(ins) and any(x.idx in init.reachable([ins[0].idx]) and ins[0].idx in init.reachable([x.idx]) for x in nxt)
    r.require(bool(rm) and bool(insp) and in_loop and any(2 in backslice(init, b.term.args[0], "dep").args for b in insp), init, "init: evictable = all blocks minus the clean ones",
              "each clean block is removed from the candidate set; every remaining block is inserted into evictable_blocks",
              "BlockManager::init does not take the clean blocks out of the evictable candidates (or does not register the rest): a block can be handed to a writer as clean and picked for reclaim at the same time", ln=init.lo)


def run(chk, F):
    chk.run_rule("C09.block-typestate", "block sets are mutated only by the manager's transitions, under the State lock, with the prescribed moves; every transition re-arms reclaim", 14, typestate, F)
    chk.run_rule("C09.pickers-and-init", "taken eviction pickers are restored on every path; init partitions blocks into clean and evictable", 4, pickers_and_init, F)
    chk.run_rule("C09.release-raii", "ReclaimingBlock::drop returns the block; reclaim removes index entries, then cleans, then releases", 4, release_raii, F)
    chk.run_rule("C09.fifo", "clean queue pop_front/push_back; FifoPicker queues at the back and picks the front", 2, fifo, F)
    chk.run_rule("C09.fifo-evict-position", "the FIFO picker forgets exactly the block that was evicted", 1, fifo_evict_position, F)
    from rules import C01 as _C01
    chk.run_rule("C09.seq-tables", "reclaim removes an index entry only if it is not newer than the reclaimed one (remove_batch table); insert_inner keeps the newest", 5, _C01.seq_tables, F)
    chk.run_rule("C09.reinsertion", "a re-inserted entry keeps hash, length and sequence and is skipped when the key left the index", 4, reinsertion, F)
    chk.run_rule("C09.reinsertion-size-limit", "push_slice (re-insertion) accepts exactly the entry sizes push (insertion) accepts", 1, size_limit_siblings, F)
    chk.run_rule("C09.only-full", "only completely written blocks are handed to on_writing_finish", 1, only_full, F)
    from rules import mustcall
    mustcall.run_for(chk, F, "C09")
