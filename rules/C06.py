"""C06 — concurrent fetches of one key are coalesced and every caller is answered (DESIGN.md §4 C06)."""
import re

from sa import mir, tables, flow, locks
from sa.mir import backslice, AnchorMissing
from rules import C11

TITLE = ("C06: probe and in-flight registration in one shard critical section; waiters taken are always sent to; leader/waiter arms; "
         "removal by leader id; error paths cache nothing; the origin fetch is built at most once; every task state that owns an in-flight entry answers on drop.")
NOT_DECIDED = [
    "absence of hangs in general (liveness); only: every structural hand-off of waiters ends in a send",
    "behaviour under arbitrary orders of caller drops",
    "that spawning the fetch task on a runtime that is already shut down does not run the task's destructor under the locks held by the spawner (observation)",
]

INF = "foyer_memory::inflight::InflightManager"
SHARD = "foyer_memory::raw::RawCacheShard"
SHARD_CLASS = "foyer_memory::raw::RawCacheShard"
STATE = "foyer_memory::raw::RawFetchState"


def _drop_inner(F):
    c = [f for f in F.all_fns("P") if f.id.endswith("PinnedDrop>::drop::__drop_inner") and "RawFetch<" in f.id]
    if len(c) != 1:
        raise AnchorMissing("PinnedDrop::drop of RawFetch not found")
    return c[0]


def one_critical_section(r, F):
    A = locks.analysis(F)
    must = A.must_ctx()
    n = 0
    for f in F.all_fns("P"):
        if f.crate.name != "foyer_memory":
            continue
        for b in f.calls_to(r"inflight::InflightManager::<E, S, I>::enqueue$"):
            n += 1
            held = {c for (k, c) in A.must_held_at(f.id, b.idx)}
            r.require(SHARD_CLASS in held, f, "enqueue under the shard lock",
                      "the in-flight registration runs inside the shard critical section that made the cache probe (must-held: %s)" % sorted(held),
                      "InflightManager::enqueue is reachable without the shard lock being held: a concurrent insert can slip between the cache probe "
                      "and the in-flight registration, so the caller waits on a fetch although the value is already cached (or fetches twice)", ln=b.term.ln)
    if n < 1:
        raise AnchorMissing("no call of InflightManager::enqueue found")
    # the probe (get_*) and the registration are in the same closure chain: the extract closure receives the probe result
    gof = F.fn("foyer_memory::raw::RawCache::get_or_fetch_inner")
    probes = [(g, b) for g in F.descendants(gof) for b in g.calls_to(r"RawCacheShard::<E, S, I>::get_(noop|immutable|mutable)$")]
    r.require(len(probes) >= 3 and all(any(t.callee and re.search(r"ops::(Fn|FnOnce|FnMut)::call", t.callee) and any(a.place is not None and
              b.term.dest.local in backslice(g, a, "dep").locals for a in t.args) for t in [x.term for x in g.calls()]) for g, b in probes), gof,
              "probe result handed to the registering closure", "all three probe arms pass their result to the closure that registers the in-flight entry",
              "a probe arm of get_or_fetch_inner does not hand its result to the in-flight registration inside the same guard scope", ln=gof.lo)
    # insert side: take(.., None) under the WRITE guard, in the function that also updates the index
    n2 = 0
    for f in F.all_fns("P"):
        if f.crate.name != "foyer_memory":
            continue
        for b in f.calls_to(r"inflight::InflightManager::<E, S, I>::take$"):
            idarg = backslice(f, b.term.args[3], "prov")
            is_none = any(s.rv.j.get("variant") == "None" for _, s in idarg.aggs)
            if not is_none:
                continue
            n2 += 1
            heldk = A.must_held_at(f.id, b.idx)
            ok_w = ("write", SHARD_CLASS) in heldk
            has_insert = bool(f.calls_to(r"^foyer_memory::indexer::Indexer::insert$"))
            dom = all(f.dominates(b.idx, i.idx) for i in f.calls_to(r"^foyer_memory::indexer::Indexer::(insert|remove)$"))
            r.require(ok_w and has_insert and dom, f, "insert takes the waiters under the shard WRITE lock, before publishing",
                      "take(key, None) runs under the exclusive shard lock in the function that publishes the record, and dominates the index update",
                      "the insert path takes the in-flight waiters outside the exclusive critical section that publishes the record: a remove + get_or_fetch "
                      "interleaved in the gap hands the removed value to the new fetcher (and cancels its fetch)", ln=b.term.ln)
    if n2 != 1:
        r.fail(None, "insert-side take", "expected exactly one take(.., None) (the insert path), found %d" % n2)


def waiters_answered(r, F):
    def sink(f, s, idx, kind):
        if kind == "call" and s.callee and re.search(r"oneshot::Sender::<T>::send$", s.callee) and idx == 0:
            return "send"
        if kind == "agg" and s.rv.j.get("adt") == STATE and s.rv.j.get("variant") == "Notify":
            return "RawFetchState::Notify"
        if kind == "agg" and (s.rv.j.get("adt") or "").endswith("inflight::FetchOrTake") and s.rv.j.get("variant") == "Notifiers":
            return "FetchOrTake::Notifiers"
        return None
    n = 0
    for f in F.all_fns("P"):
        if f.crate.name != "foyer_memory" or (f.self_ty or "").startswith(INF):
            continue
        root = F.P.get(f.root, f)
        if (root.self_ty or "").startswith(INF):
            continue
        for b in f.calls_to(r"inflight::InflightManager::<E, S, I>::(take|fetch_or_take)$"):
            n += 1
            fl = flow.forward(F, f, [b.term.dest.local], sink=sink)
            kinds = sorted({s[2] for s in fl.sinks})
            ok = "send" in kinds or "RawFetchState::Notify" in kinds
            # emplace hands them to its caller through the `notifiers` out-parameter
            if not ok and fl.stored == [] and f.short.endswith("RawCacheShard::emplace"):
                outp = [s for bb in f.blocks for s in bb.stmts if s.k == "assign" and s.place.has_deref() and 1 <= s.place.local <= f.argc
                        and "Sender<" in f.local_ty(s.place.local) and set(backslice(f, s.rv.ops[0], "prov").locals) & {l for (_, l) in fl.visited}]
                ok = bool(outp)
                kinds = ["out-parameter `notifiers`"]
            r.require(ok, f, "waiters from %s are sent to" % b.term.callee.rsplit("::", 1)[-1], "the taken waiters end in %s" % kinds,
                      "waiters taken out of the in-flight table are dropped without being answered: their futures never resolve with a value/err "
                      "(they see a closed channel at best)", ln=b.term.ln)
    if n < 4:
        r.fail(None, "sites", "only %d take/fetch_or_take call sites found (4 confirmed: emplace, try_set_required, handle_error, PinnedDrop)" % n)
    # insert_inner sends to every notifier it got from emplace; handle_notify sends to every drained notifier on both arms
    ii = F.fn("foyer_memory::raw::RawCache::insert_inner")
    sends = ii.calls_to(r"oneshot::Sender::<T>::send$")
    nvec = {l for l in range(ii.nlocals) if ii.local_ty(l).startswith("std::vec::Vec<mea::oneshot::Sender<")}
    r.require(bool(sends) and bool(nvec) and all(nvec & backslice(ii, s.term.args[0], "dep").locals for s in sends), ii,
              "insert_inner notifies every waiter", "each element of `notifiers` is sent the new entry", "insert_inner does not send to the waiters it took", ln=ii.lo)
    hn = F.fn("foyer_memory::raw::RawFetch::handle_notify")
    sends = hn.calls_to(r"oneshot::Sender::<T>::send$")
    arms = tables.discr_switches(hn)
    ok = len(sends) >= 2
    for (sb, pl, tm, other) in arms:
        if {"Ok", "Err"} <= set(tm):
            ok = ok and all(any(s.idx in hn.reachable([tm[v]], avoid=[sb.idx]) for s in sends) for v in ("Ok", "Err"))
    r.require(ok, hn, "handle_notify sends on Ok and on Err", "both result arms drain the notifiers into send", "handle_notify leaves waiters unanswered on one result arm", ln=hn.lo)


def lead_or_wait(r, F):
    fn = F.method(INF, "enqueue")
    ent = fn.calls_to(r"hashbrown::HashTable::<T, A>::entry$")
    if len(ent) != 1:
        raise AnchorMissing("enqueue: HashTable::entry not found")
    sws = tables.variant_switch_on(fn, ent[0].idx)
    if not sws:
        raise AnchorMissing("enqueue: match on the table entry not found")
    sb, pl, tm, other = sws[0]
    vac, occ = tm.get("Vacant"), tm.get("Occupied")
    rv = fn.reachable([vac], avoid=[sb.idx])
    ro = fn.reachable([occ], avoid=[sb.idx])
    aggs = {(s.rv.j.get("variant")): b.idx for b in fn.blocks if not b.cleanup for s in b.stmts if s.k == "assign" and s.rv.k == "agg" and (s.rv.j.get("adt") or "").endswith("inflight::Enqueue")}
    ins = [b.idx for b in fn.calls_to(r"hash_table::VacantEntry::<'a, T, A>::insert$")]
    ids = tables.field_updates(fn, "next_id", INF)
    r.require(aggs.get("Lead") in rv and aggs.get("Lead") not in ro and bool(ins) and all(i in rv for i in ins) and
              any(u["kind"] == "add" and u["block"] in rv for u in ids), fn, "vacant -> fresh id, insert, Lead",
              "the first caller allocates a fresh id, registers the entry and leads", "the vacant arm of enqueue does not allocate a fresh id / register the entry / return Lead", ln=ent[0].term.ln)
    push = [b.idx for b in fn.calls_to(r"Vec::<T, A>::push$") if backslice(fn, b.term.args[0], "prov").has_field("notifiers")]
    r.require(aggs.get("Wait") in ro and aggs.get("Wait") not in rv and bool(push) and all(p in ro for p in push), fn, "occupied -> push waiter, Wait",
              "later callers only add a waiter", "the occupied arm of enqueue does not push the caller's sender / return Wait", ln=ent[0].term.ln)
    # the leader's sender is among the entry's notifiers (vec![tx]) and the receiver of that channel is what Lead returns
    ch = [b for b in fn.calls_to(r"oneshot::channel$") if b.idx in rv]
    ok = False
    for c in ch:
        infl = [s for b in fn.blocks for s in b.stmts if s.k == "assign" and s.rv.k == "agg" and s.rv.j.get("adt") == "foyer_memory::inflight::Inflight"]
        lead = [s for b in fn.blocks for s in b.stmts if s.k == "assign" and s.rv.k == "agg" and s.rv.j.get("variant") == "Lead"]
        if infl and lead:
            n_sl = backslice(fn, dict(infl[0].rv.agg_fields())["notifiers"], "dep")
            w_sl = backslice(fn, dict(lead[0].rv.agg_fields())["waiter"], "dep")
            ok = any(bb == c.idx for bb, _ in n_sl.calls) and any(bb == c.idx for bb, _ in w_sl.calls)
    r.require(ok, fn, "leader waits on its own channel", "the sender stored in the table and the receiver returned to the leader are one channel",
              "the leader's receiver is not paired with the sender registered in the in-flight entry: the leader is never answered", ln=fn.lo)
    # RawFetch is spawned only in the Lead arm
    gof = F.fn("foyer_memory::raw::RawCache::get_or_fetch_inner")
    sp = [(g, b) for g in [gof] + F.descendants(gof) for b in g.calls_to(r"spawn::Spawner::spawn$")]
    if len(sp) != 1:
        raise AnchorMissing("get_or_fetch_inner: Spawner::spawn not found exactly once")
    g, b = sp[0]
    enq = g.calls_to(r"InflightManager::<E, S, I>::enqueue$")
    ok = False
    for e in enq:
        for (sb2, pl2, tm2, o2) in tables.variant_switch_on(g, e.idx):
            if "Lead" in tm2 and g.edge_guards(sb2.idx, tm2["Lead"], b.idx):
                ok = True
    r.require(ok, g, "fetch task spawned only by the leader", "Spawner::spawn is control-dependent on Enqueue::Lead", "a waiter (not only the leader) spawns a fetch task: the origin is fetched more than once", ln=b.term.ln)


def by_id(r, F):
    for name in ("take", "fetch_or_take"):
        fn = F.method(INF, name)
        rem = [b.idx for b in fn.calls_to(r"hash_table::OccupiedEntry::<'a, T, A>::remove$")]
        if not rem:
            raise AnchorMissing("%s: OccupiedEntry::remove not found" % name)
        cmps = tables.find_cmp(fn, lambda f, op: op.place is not None and (bool(backslice(f, op, "prov").args & {4}) or (name == "take" and any(
            "Some" in d for d in []) )) or (op.place is not None and 4 in backslice(f, op, "dep").args),
            tables.role_field("id", "inflight::Inflight"), "comparison of the given leader id with the entry's id")
        for c, flipped in cmps:
            tab = tables.table(fn, c, flipped, rem)
            r.require(tab[0] == "no" and tab[2] == "no" and tab[1] in ("yes", "maybe"), fn, "id==entry.id -> remove",
                      "an entry is removed by id only when the ids are equal: (given<,=,>) -> %s" % (tab,),
                      "%s removes an in-flight entry whose id differs from the caller's: a stale task steals (and answers) the waiters of a newer fetch: %s" % (name, tab), ln=c.ln)


def fresh_ids(r, F):
    """`by id` only means something if ids are fresh: every new in-flight entry gets the current counter value and the counter then moves on by a non-zero
    constant, on the same path; the id given to the leader is the one stored in the table"""
    from sa import affine
    fn = F.method(INF, "enqueue")
    ups = tables.field_updates(fn, "next_id", INF)
    vi = fn.calls_to(r"VacantEntry::<'a, T, A>::insert$")
    if len(vi) != 1:
        raise AnchorMissing("InflightManager::enqueue: VacantEntry::insert not found exactly once")
    ok = len(ups) == 1 and ups[0]["kind"] == "add"
    if ok:
        form = affine.affine(fn, ups[0]["stmt"].rv.ops[0], depth=1)
        var = [k for k in form if k != "1"]
        ok = len(var) == 1 and "next_id" in var[0] and form[var[0]] == 1 and form.get("1", 0) != 0 and (fn.dominates(ups[0]["block"], vi[0].idx) or fn.must_pass(vi[0].idx, [ups[0]["block"]]))
    r.require(ok, fn, "a new in-flight entry advances the id counter", "next_id += c (c != 0) on the path that inserts the entry",
              "InflightManager::enqueue does not advance next_id by a non-zero step for every new entry: two fetches of a key share an id, so a superseded fetch task can take over "
              "(and answer) the waiters of the newer one", ln=fn.lo)
    ids = []
    for b in fn.blocks:
        if b.cleanup:
            continue
        for st in b.stmts:
            if st.k == "assign" and st.rv.k == "agg" and ((st.rv.j.get("adt") or "").endswith("inflight::Inflight") or st.rv.j.get("variant") == "Lead"):
                fl = dict(st.rv.agg_fields())
                if "id" in fl:
                    ids.append(backslice(fn, fl["id"], "prov").has_field("next_id", INF))
    r.require(len(ids) == 2 and all(ids), fn, "the stored id and the leader's id are the counter's value", "Inflight { id } and Enqueue::Lead { id } both read next_id",
              "the id kept in the in-flight table and the id handed to the leading fetch are not both the counter's value", ln=fn.lo)


def error_caches_nothing(r, F):
    A = locks.analysis(F)
    bad_rx = re.compile(r"RawCache::<E, S, I>::(insert\w*)$|RawCacheShard::<E, S, I>::emplace$")
    for f in [F.fn("foyer_memory::raw::RawFetch::handle_error"), _drop_inner(F), F.fn("foyer_memory::raw::RawFetch::handle_notify")]:
        seen, stack, hit = set(), [f.id], None
        while stack and hit is None:
            cur = stack.pop()
            if cur in seen:
                continue
            seen.add(cur)
            for (cid, classes, ln, via) in A.edges.get(cur, []):
                if bad_rx.search(mir.short_path(cid).replace("::insert", "::<E, S, I>::insert") if False else cid):
                    hit = (cur, cid, ln)
                stack.append(cid)
        r.require(hit is None, f, "reaches no insert", "no insert/emplace is reachable from this path", "an error / cancel path reaches %s: a failed fetch caches something" % (hit,), ln=f.lo)


def single_fetch(r, F):
    poll = F.method("foyer_memory::raw::RawFetch", "poll", "Future")
    # the boxed required-fetch builder is invoked only in try_set_required
    n = 0
    for f in F.all_fns("P"):
        if f.crate.name != "foyer_memory":
            continue
        for b in f.calls(lambda t: t.callee is not None and re.search(r"ops::FnOnce::call_once$", t.callee) is not None):
            ty = f.local_ty(b.term.args[0].place.local) if b.term.args and b.term.args[0].place is not None else ""
            if "RequiredFetch" in ty or ("FetchTarget" in ty and "&mut C" in ty) or "dyn for<'a> std::ops::FnOnce(&'a mut C)" in ty:
                sl = backslice(f, b.term.args[0], "prov")
                if "Option<foyer_memory::inflight::FetchTarget" in ty:
                    continue
                n += 1
                is_req = "std::result::Result<foyer_memory::inflight::FetchTarget" in ty and "Option<foyer_memory::inflight::FetchTarget" not in ty
                if is_req:
                    r.require(f.short.endswith("RawFetch::try_set_required") or f.short.startswith("foyer_memory::inflight::"), f, "required builder invoked",
                              "the origin fetch is built in try_set_required (or an erase/unerase adaptor)", "the required (origin) fetch builder is invoked outside try_set_required", ln=b.term.ln)
    # in poll: try_set_required in the FetchOptional arm is reached only from Ok(None) / Err of the optional fetch, never from Ok(Some)
    tsr = [b.idx for b in poll.calls_to(r"RawFetch::<E, S, I, C>::try_set_required$")]
    ht = [b.idx for b in poll.calls_to(r"RawFetch::<E, S, I, C>::handle_target$")]
    if len(tsr) < 3 or len(ht) < 2:
        raise AnchorMissing("RawFetch::poll: try_set_required x3 / handle_target x2 not found")
    polls = poll.calls_to(r"FutureExt::poll_unpin$")
    opt = [p for p in polls if backslice(poll, p.term.args[0], "prov").has_field("optional_fetch")]
    if len(opt) != 1:
        raise AnchorMissing("RawFetch::poll: poll of the optional fetch not found")
    reach = poll.reachable([opt[0].idx])
    # find the switch selecting Ok(Some(..)) of the optional result: the handle_target in this arm
    ht_opt = [h for h in ht if h in reach and not any(t in poll.reachable([h], avoid=[opt[0].idx]) and False for t in tsr)]
    ok = False
    for h in ht_opt:
        # no try_set_required reachable from the handle_target of the optional arm before the state loop head (the poll's `loop` re-dispatches on state)
        blk = poll.blocks[h]
        arg_src = backslice(poll, blk.term.args[3] if len(blk.term.args) > 3 else blk.term.args[-1], "prov")
        if any(s.rv.j.get("variant") == "Disk" for _, s in arg_src.aggs):
            # Source::Disk -> the optional arm
            after = poll.reachable([h])
            disc = [sb.idx for (sb, pl, tm, o) in tables.discr_switches(poll) if "FetchOptional" in tm]
            r2 = poll.reachable([blk.term.j["to"]], avoid=disc)
            ok = not (set(tsr) & r2)
    # and no try_set_required lies on a path that leads on to the disk hit's handle_target (i.e. on the Ok(Some) edge)
    disc2 = [sb.idx for (sb, pl, tm, o) in tables.discr_switches(poll) if "FetchOptional" in tm]
    for h in ht_opt:
        for t in tsr:
            if h in poll.reachable([t], avoid=disc2):
                ok = False
    r.require(ok, poll, "Ok(Some) from the disk lookup never builds the origin fetch", "after the optional (disk) fetch produced a target the required fetch is not started",
              "the origin fetch is started although the disk lookup returned an entry", ln=poll.lo)


def cancel_answers(r, F):
    fn = _drop_inner(F)
    takes = [b.idx for b in fn.calls_to(r"InflightManager::<E, S, I>::take$")]
    if not takes:
        raise AnchorMissing("PinnedDrop: take not found")
    variants = None
    for (sb, pl, tm, o) in tables.discr_switches(fn):
        if "FetchOptional" in tm:
            variants = sorted(tm)
    if not variants:
        raise AnchorMissing("PinnedDrop: no match on RawFetchState")
    want = {"Init": True, "FetchOptional": True, "FetchRequired": True, "Notify": False, "Ready": False}
    pred = lambda f, sl: sl.has_field("state")
    for v in variants:
        reach = tables.explore_variant(fn, pred, v)
        passes = bool(set(takes) & reach)
        if v not in want:
            r.fail(fn, "state " + v, "unknown RawFetchState variant `%s`: the table of states that own an in-flight entry must be re-confirmed" % v, ln=fn.lo)
            continue
        r.require(passes == want[v], fn, "dropped in state %s -> %s" % (v, "take & answer waiters" if want[v] else "nothing to release"),
                  "state %s: %s" % (v, "the waiters are taken by leader id and answered with a cancellation error" if want[v] else "the waiters were already taken"),
                  ("a fetch task dropped in state %s does not release its in-flight entry: the leader, every coalesced waiter and all later callers for the key hang forever" % v)
                  if want[v] else ("a fetch task dropped in state %s takes the in-flight entry again" % v), ln=fn.lo)
    # the taken waiters are sent an Err(TaskCancelled)
    sends = fn.calls_to(r"oneshot::Sender::<T>::send$")
    r.require(bool(sends) and all(any(s.rv.j.get("variant") == "Err" for _, s in backslice(fn, sd.term.args[1], "prov").aggs) for sd in sends), fn,
              "cancelled waiters receive Err", "every waiter is sent an error", "cancelled waiters are not sent an error", ln=fn.lo)
    # the id passed is the task's own id
    for tb in takes:
        idsl = backslice(fn, fn.blocks[tb].term.args[3], "dep")
        r.require(idsl.has_field("id"), fn, "take(.., Some(self.id))", "the entry is taken by the task's own leader id", "the drop path takes the in-flight entry without its leader id (it can steal a newer fetch's waiters)", ln=fn.blocks[tb].term.ln)


def run(chk, F):
    chk.run_rule("C06.one-critical-section", "cache probe + in-flight registration, and index publication + waiter take, each happen in one shard critical section", 3, one_critical_section, F)
    chk.run_rule("C06.waiters-answered", "a vector of waiters taken from the in-flight table always ends in a send to each element", 6, waiters_answered, F)
    chk.run_rule("C06.lead-or-wait", "vacant: fresh id + registered sender + Lead; occupied: push waiter + Wait; only the leader spawns the fetch", 4, lead_or_wait, F)
    chk.run_rule("C06.by-id", "take / fetch_or_take remove an entry by leader id only on equality", 2, by_id, F)
    chk.run_rule("C06.fresh-ids", "every new in-flight entry gets a fresh id (counter advanced by a non-zero step), shared by the table entry and the leader", 2, fresh_ids, F)
    chk.run_rule("C06.error-caches-nothing", "error / cancel / notify paths reach no insert", 3, error_caches_nothing, F)
    chk.run_rule("C06.single-fetch", "the origin fetch builder is invoked only in try_set_required and not after a disk hit", 2, single_fetch, F)
    chk.run_rule("C06.superseded-fetch-abandons", "a fetch task whose in-flight entry was taken over (closed) neither polls its fetch nor inserts: both fetch arms test the flag first", 2, C11.fetch_checks, F)
    chk.run_rule("C06.close-alias", "the close flag seen by the fetch task is the one the in-flight table sets", 1, C11.close_alias, F)
    chk.run_rule("C06.cancel-answers", "a fetch task dropped in any state that still owns the in-flight entry takes it by id and answers every waiter", 7, cancel_answers, F)
    from rules import mustcall
    mustcall.run_for(chk, F, "C06")
