"""C14 — victims are chosen as the configured eviction algorithm prescribes (DESIGN.md §4 C14)."""
import re

from sa import mir, tables
from sa.mir import backslice, AnchorMissing

TITLE = ("C14: per algorithm and operation, which end of which intrusive list is used, and the decision tables of the published rules "
         "(LRU pool overflow and hint, S3-FIFO small/main/ghost and frequency threshold, SIEVE visited bit and hand, w-TinyLFU window/probation/protected and sketch comparison).")
NOT_DECIDED = [
    "the emergent victim sequence for arbitrary operation sequences (only each step's queue end and comparison are decided)",
    "the count-min sketch (its estimate is treated as an opaque frequency) and the floating point capacity ratios",
]

EV = "foyer_memory::eviction"
LISTCALL = re.compile(r"intrusive_collections::(linked_list::)?(LinkedList|CursorMut|Cursor)")


def list_ops(F, fn, adt, with_closures=True):
    """[(list field, method, body, block)] for intrusive-list calls whose receiver is a list field of `adt`"""
    out = []
    bodies = [fn] + (F.descendants(fn) if with_closures else [])
    for g in bodies:
        for b in g.calls():
            t = b.term
            if not t.callee or not t.args or not LISTCALL.search(t.callee):
                continue
            sl = backslice(g, t.args[0], "prov", extra_transparent=[r"LinkedList::<A>::(front_mut|back_mut|cursor_mut\w*|front|back|cursor\w*)$"])
            flds = {n for of, n in sl.fields if of == adt}
            for u in sl.upvars:
                m = re.match(r"^(?:_ref__)?(?:self|this)__(\w+)$", u)
                if m:
                    flds.add(m.group(1))
            for f in flds:
                out.append((f, t.callee.rsplit("::", 1)[-1], g, b.idx))
    return out


def ends(F, fn, adt):
    d = {}
    for (f, m, g, b) in list_ops(F, fn, adt):
        d.setdefault(f, set()).add(m)
    return {k: sorted(v) for k, v in d.items()}


def _blocks(ops, field, meths):
    return [b for (f, m, g, b) in ops if f == field and m in meths]


def _expect(r, fn, got, want, what):
    """want: {field: set(required methods)}; forbidden: any mutating method outside `want`"""
    MUT = {"push_back", "push_front", "pop_front", "pop_back", "remove", "remove_from_ptr", "insert_before", "insert_after", "clear", "take", "replace_with", "splice_after", "splice_before", "fast_clear"}
    ok = True
    why = []
    for f, ms in want.items():
        if not set(ms) <= set(got.get(f, ())):
            ok = False
            why.append("%s lacks %s" % (f, sorted(set(ms) - set(got.get(f, ())))))
    for f, ms in got.items():
        extra = (set(ms) & MUT) - set(want.get(f, ()))
        if extra:
            ok = False
            why.append("%s also uses %s" % (f, sorted(extra)))
    r.require(ok, fn, what, "queue ends used: %s" % got, "%s — the algorithm prescribes %s; found %s (%s)" % (what, {k: sorted(v) for k, v in want.items()}, got, "; ".join(why)), ln=fn.lo)


def fifo(r, F):
    A = EV + "::fifo::Fifo"
    _expect(r, F.method(A, "push", "Eviction"), ends(F, F.method(A, "push", "Eviction"), A), {"queue": {"push_back"}}, "FIFO push: insert at the back")
    _expect(r, F.method(A, "pop", "Eviction"), ends(F, F.method(A, "pop", "Eviction"), A), {"queue": {"pop_front"}}, "FIFO pop: evict the oldest (front)")
    _expect(r, F.method(A, "remove", "Eviction"), ends(F, F.method(A, "remove", "Eviction"), A), {"queue": {"remove_from_ptr"}}, "FIFO remove: unlink in place")
    acq = F.method(A, "acquire", "Eviction")
    r.require(not F.descendants(acq), acq, "FIFO acquire is a no-op", "lookups do not reorder", "FIFO reorders entries on lookup", ln=acq.lo)


def lru(r, F):
    A = EV + "::lru::Lru"
    push = F.method(A, "push", "Eviction")
    ops = list_ops(F, push, A)
    hp = _blocks(ops, "high_priority_list", {"push_back"})
    lo = _blocks(ops, "list", {"push_back"})
    okh = False
    for (sb, pl, tm, other) in tables.discr_switches(push):
        if {"Normal", "Low"} <= set(tm):
            rn = push.reachable([tm["Normal"]], avoid=[sb.idx, tm["Low"]])
            rl = push.reachable([tm["Low"]], avoid=[sb.idx, tm["Normal"]])
            okh = bool(set(hp) & rn) and not (set(lo) & rn) and bool(set(lo) & rl) and not (set(hp) & rl)
            ovf = [b.idx for b in push.calls_to(r"Lru::<K, V, P>::may_overflow_high_priority_pool$")]
            okh = okh and bool(set(ovf) & rn)
    r.require(okh, push, "LRU push: Hint::Normal -> high-priority tail (+overflow), Hint::Low -> low-priority tail", "hint table honoured", "LRU push does not place Normal / Low hinted entries in the high / low priority lists", ln=push.lo)
    ovf_calls = [b.idx for b in push.calls_to(r"Lru::<K, V, P>::may_overflow_high_priority_pool$")]
    r.require(bool(hp) and bool(ovf_calls) and all(any(push.dominates(h, o) for h in hp) for o in ovf_calls), push, "LRU push: newcomer linked before the pool overflows",
              "high_priority_list.push_back(record) dominates may_overflow_high_priority_pool()", "Lru::push runs the high-priority overflow before linking the new record: an entry heavier than the pool's share "
              "stays in the pool while older entries are demoted", ln=push.lo)
    _expect(r, push, ends(F, push, A), {"high_priority_list": {"push_back"}, "list": {"push_back"}}, "LRU push: insert at the MRU end")
    pop = F.method(A, "pop", "Eviction")
    e = ends(F, pop, A)
    _expect(r, pop, e, {"list": {"pop_front"}, "high_priority_list": {"pop_front"}}, "LRU pop: least recently released first")
    r.require("pin_list" not in e, pop, "LRU pop never reads pin_list", "held entries are not victims", "LRU pop touches the pin list", ln=pop.lo)
    # low-priority first: the high-priority pop sits in the or_else closure of the low-priority pop
    ops = list_ops(F, pop, A)
    low_in_fn = [g for (f, m, g, b) in ops if f == "list" and m == "pop_front" and g is pop]
    high_in_closure = [g for (f, m, g, b) in ops if f == "high_priority_list" and m == "pop_front" and g is not pop]
    r.require(bool(low_in_fn) and bool(high_in_closure) and bool(pop.calls_to(r"Option::<T>::or_else$")), pop, "LRU pop: low-priority list first, high-priority only if empty",
              "list.pop_front().or_else(high_priority_list.pop_front)", "LRU does not evict low-priority entries before high-priority ones", ln=pop.lo)
    ov = F.method(A, "may_overflow_high_priority_pool")
    ops = list_ops(F, ov, A)
    act = _blocks(ops, "high_priority_list", {"pop_front"})
    found = tables.find_cmp(ov, tables.role_field("high_priority_weight", A), tables.role_field("high_priority_weight_capacity", A), "comparison of the high-priority weight with its capacity")
    for c, fl in found:
        tab = tables.table(ov, c, fl, act)
        r.require(tab == ("no", "no", "yes"), ov, "LRU overflow: weight ? capacity -> demote", "table (weight<cap, =, >) -> demote oldest high-priority entry: %s" % (tab,),
                  "the high-priority pool must overflow exactly while its weight exceeds the configured share; got (w<cap,=,>) -> %s" % (tab,), ln=c.ln)
    _expect(r, ov, ends(F, ov, A), {"high_priority_list": {"pop_front"}, "list": {"push_back"}}, "LRU overflow: oldest high-priority entry to the low-priority tail")
    # sibling pairing: wherever the pool can grow beyond its share (weight added, or the share lowered) the overflow is re-run
    n = 0
    for f in F.all_fns("P"):
        root = F.P.get(f.root, f)
        if not (root.self_ty or "").startswith(A) or f.id.endswith("may_overflow_high_priority_pool") or f.id.rsplit("::", 1)[-1] == "new":
            continue
        ups = [u for u in tables.field_updates(f, "high_priority_weight", A) if u["kind"] == "add"] + [u for u in tables.field_updates(f, "high_priority_weight_capacity", A)]
        adds = f.calls_to(r"ops::AddAssign::add_assign$")
        ups += [{"block": b.idx, "ln": b.term.ln} for b in adds if backslice(f, b.term.args[0], "prov").has_field("high_priority_weight", A)]
        ovf = [b.idx for b in f.calls_to(r"Lru::<K, V, P>::may_overflow_high_priority_pool$")]
        for u in ups:
            n += 1
            r.require(bool(ovf) and f.must_pass(u["block"], ovf), f, "pool growth -> may_overflow_high_priority_pool", "the configured share is re-established after the pool grew (or the share shrank)",
                      "the high-priority pool grows (or its share shrinks) here without may_overflow_high_priority_pool being run afterwards, unlike the sibling sites: the pool can stay "
                      "above its configured share, so an entry that should have been demoted is protected from eviction", ln=u["ln"])
    if n < 3:
        r.fail(None, "sites", "only %d sites growing the high-priority pool found (3 confirmed: push, release, update)" % n)
    rel = F.method(A, "release", "Eviction")
    _expect(r, rel, ends(F, rel, A), {"pin_list": {"remove_from_ptr"}, "high_priority_list": {"push_back"}, "list": {"push_back"}}, "LRU release: unpin to the MRU end of its pool")
    acq = F.method(A, "acquire", "Eviction")
    _expect(r, acq, ends(F, acq, A), {"pin_list": {"push_back"}, "high_priority_list": {"remove_from_ptr"}, "list": {"remove_from_ptr"}}, "LRU acquire: move to the pin list")


def s3fifo(r, F):
    A = EV + "::s3fifo::S3Fifo"
    push = F.method(A, "push", "Eviction")
    ops = list_ops(F, push, A)
    gh = push.calls_to(r"GhostQueue::contains$")
    ok = False
    if gh:
        for (swb, neg) in tables._bool_switches_on(push, gh[0].idx):
            tt, ft = tables.bool_switch_targets(swb)
            if neg:
                tt, ft = ft, tt
            rt, rf = push.reachable([tt], avoid=[swb.idx, ft]), push.reachable([ft], avoid=[swb.idx, tt])
            ok = bool(set(_blocks(ops, "main_queue", {"push_back"})) & rt) and bool(set(_blocks(ops, "small_queue", {"push_back"})) & rf) and \
                not (set(_blocks(ops, "small_queue", {"push_back"})) & rt) and not (set(_blocks(ops, "main_queue", {"push_back"})) & rf)
    r.require(ok, push, "S3-FIFO push: ghost hit -> main tail, else small tail", "ghost table honoured", "S3-FIFO push does not route ghost hits to main and new keys to small", ln=push.lo)
    ev = F.method(A, "evict")
    es = [b.idx for b in ev.calls_to(r"S3Fifo::<K, V, P>::evict_small$")]
    em = [b.idx for b in ev.calls_to(r"S3Fifo::<K, V, P>::evict_main$")]
    found = tables.find_cmp(ev, tables.role_field("small_weight", A), tables.role_field("small_weight_capacity", A), "comparison of the small queue weight with its capacity")
    for c, fl in found:
        tab = tables.table(ev, c, fl, es)
        r.require(tab[0] == "no" and tab[1] == "no" and tab[2] == "yes" and bool(em), ev, "S3-FIFO evict: small over capacity -> evict from small first",
                  "table (small<cap, =, >) -> evict_small first: %s" % (tab,), "S3-FIFO must evict from the small queue first exactly while it is over its share; got %s" % (tab,), ln=c.ln)
    sm = F.method(A, "evict_small")
    ops = list_ops(F, sm, A)
    _expect(r, sm, ends(F, sm, A), {"small_queue": {"pop_front"}, "main_queue": {"push_back"}}, "S3-FIFO evict_small: scan small from the front, promote to main tail")
    promo = _blocks(ops, "main_queue", {"push_back"})
    ghost = [b.idx for b in sm.calls_to(r"GhostQueue::push$")]
    found = tables.find_cmp(sm, tables.role_call(r"S3FifoState::frequency$"), tables.role_field("small_to_main_freq_threshold", A), "comparison of the entry frequency with the promotion threshold")
    for c, fl in found:
        tab = tables.table(sm, c, fl, promo)
        tabg = tables.table(sm, c, fl, ghost)
        r.require(tab == ("no", "yes", "yes") and tabg[0] == "yes" and tabg[1] == "no" and tabg[2] == "no", sm, "S3-FIFO small: freq ? threshold -> promote / evict+ghost",
                  "table (freq<thr, =, >) -> promote %s, ghost %s" % (tab, tabg), "entries of the small queue must be promoted iff frequency >= threshold, else evicted and remembered in the ghost queue; got promote %s ghost %s" % (tab, tabg), ln=c.ln)
    mn = F.method(A, "evict_main")
    ops = list_ops(F, mn, A)
    _expect(r, mn, ends(F, mn, A), {"main_queue": {"pop_front", "push_back"}}, "S3-FIFO evict_main: scan main from the front, re-insert at the tail")
    re_ins = _blocks(ops, "main_queue", {"push_back"})
    found = tables.find_cmp(mn, tables.role_call(r"S3FifoState::dec_frequency$"), tables.role_const(0), "comparison of the previous frequency with 0")
    for c, fl in found:
        tab = tables.table(mn, c, fl, re_ins)
        r.require(tab[1] == "no" and tab[2] == "yes", mn, "S3-FIFO main: previous freq ? 0 -> re-insert / evict", "table (prev<0, =0, >0) -> re-insert: %s" % (tab,),
                  "entries of the main queue must be re-inserted while their frequency was > 0 and evicted at 0; got %s" % (tab,), ln=c.ln)
    inc = F.method(EV + "::s3fifo::S3FifoState", "inc_frequency")
    bodies = [inc] + F.descendants(inc)
    sat = any(g.calls_to(r"cmp::Ord::min$|::min$") or any(c.op in ("Lt", "Le", "Ge", "Gt") for c in tables.comparisons(g)) for g in bodies)
    mx = any("MAX_FREQUENCY" in (c or "") for g in bodies for b in g.blocks for s in b.stmts if s.k == "assign" for o in s.rv.ops for c in [o.const_item() if o.is_const() else None]) or \
        any(o.is_const() and o.const_val() == 3 for g in bodies for b in g.blocks for t in [b.term] if t.k == "call" for o in t.args)
    r.require(sat and mx, inc, "S3-FIFO frequency saturates at MAX_FREQUENCY", "inc_frequency clamps", "the access frequency no longer saturates at MAX_FREQUENCY", ln=inc.lo)
    # the step is exactly one: inc -> min(MAX, v + 1), dec -> v.saturating_sub(1)
    from sa import affine as _aff
    okstep = False
    for g in F.descendants(inc):
        for b in g.calls_to(r"cmp::min$|Ord::min$"):
            forms = [_aff.affine(g, a, depth=1) for a in b.term.args if a.place is not None]
            okstep = okstep or any(f_.get("1") == 1 and len([k for k in f_ if k != "1"]) == 1 and all(v == 1 for k, v in f_.items() if k != "1") for f_ in forms)
    dec = F.method(EV + "::s3fifo::S3FifoState", "dec_frequency")
    okdec = any(b.term.args[1].is_const() and b.term.args[1].const_val() == 1 for g in F.descendants(dec) for b in g.calls_to(r"::saturating_sub$"))
    r.require(okstep and okdec, inc, "S3-FIFO frequency steps by one", "inc: min(MAX, v + 1); dec: v.saturating_sub(1)",
              "S3FifoState::inc_frequency / dec_frequency do not move the frequency by exactly one (inc %s, dec %s): promotion from the small queue and re-insertion in main depend on it" % (okstep, okdec), ln=inc.lo)


def sieve(r, F):
    A = EV + "::sieve::Sieve"
    push = F.method(A, "push", "Eviction")
    _expect(r, push, ends(F, push, A), {"queue": {"push_back"}}, "SIEVE push: insert at the tail")
    pop = F.method(A, "pop", "Eviction")
    e = ends(F, pop, A)
    r.require({"cursor_mut_from_ptr", "front_mut"} <= set(e.get("queue", ())), pop, "SIEVE pop: scan from the hand, or from the head", "cursor at the hand or the front: %s" % e,
              "SIEVE does not start scanning at the hand (else the head): %s" % e, ln=pop.lo)
    vis = pop.calls_to(r"SieveState::is_visited$")
    clr = [b.idx for b in pop.calls_to(r"SieveState::set_visited$") if b.term.args[1].const_val() == 0]
    adv = [b.idx for b in pop.calls_to(r"CursorMut::<'a, A>::move_next$")] + [b.idx for b in pop.calls_to(r"LinkedList::<A>::front_mut$")]
    rem = [b.idx for b in pop.calls_to(r"CursorMut::<'a, A>::remove$")]
    ok = False
    if vis and clr and rem:
        for (swb, neg) in tables._bool_switches_on(pop, vis[0].idx):
            tt, ft = tables.bool_switch_targets(swb)
            if neg:
                tt, ft = ft, tt
            # visited -> clear the bit and advance (back to the test); not visited -> leave the loop and remove
            rt = pop.reachable([tt], avoid=[swb.idx, vis[0].idx])
            rf = pop.reachable([ft], avoid=[swb.idx, vis[0].idx])
            ok = bool(set(clr) & rt) and bool(set(adv) & rt) and not (set(rem) & rt) and bool(set(rem) & rf) and not (set(clr) & rf)
    r.require(ok, pop, "SIEVE: visited -> clear bit, advance; unvisited -> evict", "visited-bit table honoured", "SIEVE does not give visited entries a second chance / evict the first unvisited entry", ln=pop.lo)
    hand = [u for u in tables.field_updates(pop, "hand", A)]
    pk = pop.calls_to(r"CursorMut::<'a, A>::peek_next$")
    r.require(bool(hand) and bool(pk) and all(any(bb == pk[0].idx for bb, _ in backslice(pop, u["stmt"].rv.ops[0], "dep").calls) for u in hand) and
              all(pop.dominates(u["block"], rb) for u in hand for rb in rem), pop, "SIEVE: hand := successor of the victim", "the hand moves to the entry after the victim before it is unlinked",
              "the SIEVE hand is not set to the victim's successor before the victim is removed", ln=pop.lo)
    acq = F.method(A, "acquire", "Eviction")
    sv = [b for g in F.descendants(acq) for b in g.calls_to(r"SieveState::set_visited$")]
    r.require(bool(sv) and all(b.term.args[1].const_val() == 1 for b in sv) and not ends(F, acq, A), acq, "SIEVE acquire: set the visited bit, no reordering", "lookups only mark",
              "SIEVE lookups reorder the queue or do not mark the entry visited", ln=acq.lo)


def lfu(r, F):
    A = EV + "::lfu::Lfu"
    push = F.method(A, "push", "Eviction")
    ops = list_ops(F, push, A)
    _expect(r, push, ends(F, push, A), {"window": {"push_back", "pop_front"}, "probation": {"push_back"}}, "w-TinyLFU push: admit to the window tail, overflow the window head to probation")
    act = _blocks(ops, "window", {"pop_front"})
    found = tables.find_cmp(push, tables.role_field("window_weight", A), tables.role_field("window_weight_capacity", A), "comparison of the window weight with its capacity")
    for c, fl in found:
        tab = tables.table(push, c, fl, act)
        r.require(tab == ("no", "no", "yes"), push, "w-TinyLFU window overflow: weight ? capacity", "table (w<cap, =, >) -> overflow: %s" % (tab,),
                  "the window must overflow to probation exactly while its weight exceeds its share; got %s" % (tab,), ln=c.ln)
    # the overflow runs on the window INCLUDING the newcomer: the new record is linked at the window tail before the overflow test, so that an entry heavier than
    # the window's share overflows to probation itself instead of sitting in the window while older entries are pushed out
    link_new = [b for (f_, m, g, b) in ops if f_ == "window" and m == "push_back" and g is push and 2 in backslice(push, push.blocks[b].term.args[1], "prov").args]
    r.require(bool(link_new) and bool(found) and all(push.dominates(link_new[0], c.sw.idx) for c, fl in found), push, "w-TinyLFU push: newcomer linked before the window overflows",
              "window.push_back(record) dominates the window-weight test", "Lfu::push runs the window overflow before linking the new record: an entry heavier than the window share stays in the window "
              "(and loses the admission comparison) instead of overflowing to probation", ln=push.lo)
    pop = F.method(A, "pop", "Eviction")
    ops = list_ops(F, pop, A)
    e = ends(F, pop, A)
    r.require({"front_mut"} <= set(e.get("window", ())) and {"front_mut"} <= set(e.get("probation", ())) and "pop_front" in e.get("protected", ()), pop,
              "w-TinyLFU pop: candidates are the heads of window and probation; protected only as a last resort", "ends: %s" % e, "w-TinyLFU pop does not compare the heads of window and probation: %s" % e, ln=pop.lo)
    est = pop.calls_to(r"Lfu::<K, V, P>::estimate_frequency$")
    if len(est) >= 2:
        def role(which):
            def p(fn, op):
                if op.place is None:
                    return False
                sl = backslice(fn, op, "prov")
                for bb, t in sl.calls:
                    if t.callee and t.callee.endswith("estimate_frequency"):
                        s2 = backslice(fn, t.args[1], "prov", extra_transparent=[r"LinkedList::<A>::(front_mut|back_mut|cursor_mut\w*)$", r"CursorMut::<'a, A>::get$", r"Record::<E>::hash$", r"Option::<T>::", r"Deref::deref$"])
                        return s2.has_field(which, A) or any(which in u for u in s2.upvars)
                return False
            return p
        rems = [(f, b) for (f, m, g, b) in ops if m == "remove" and g is pop]
        FM = [r"LinkedList::<A>::(front_mut|back_mut|cursor_mut\w*)$"]
        cur_w = [b for b in pop.calls_to(r"CursorMut::<'a, A>::remove$") if backslice(pop, b.term.args[0], "prov", extra_transparent=FM).has_field("window", A)]
        cur_p = [b for b in pop.calls_to(r"CursorMut::<'a, A>::remove$") if backslice(pop, b.term.args[0], "prov", extra_transparent=FM).has_field("probation", A)]
        found = tables.find_cmp(pop, role("window"), role("probation"), "comparison of the sketch frequencies of the window head and the probation head")
        for c, fl in found:
            lt_t, eq_t, gt_t = c.target("lt", fl), c.target("eq", fl), c.target("gt", fl)
            def first_remove(t):
                reach = pop.reachable([t], avoid=[c.sw.idx])
                w = any(b.idx in reach and pop.path(t, b.idx, avoid=[x.idx for x in cur_p]) for b in cur_w)
                p_ = any(b.idx in reach and pop.path(t, b.idx, avoid=[x.idx for x in cur_w]) for b in cur_p)
                return ("window" if w and not p_ else "probation" if p_ and not w else "both" if w and p_ else "none")
            got = (first_remove(lt_t), first_remove(eq_t), first_remove(gt_t))
            r.require(got == ("window", "probation", "probation"), pop, "w-TinyLFU admission: freq(window head) ? freq(probation head)",
                      "table (w<p, =, >) -> victim: %s" % (got,), "the window candidate must be evicted only when its estimated frequency is strictly lower than the probation head's; got %s" % (got,), ln=c.ln)
    else:
        r.fail(pop, "sketch comparison", "the two frequency estimates were not found", ln=pop.lo)
    acq = F.method(A, "acquire", "Eviction")
    cl = F.descendants(acq)
    if not cl:
        raise AnchorMissing("Lfu::acquire operator not found")
    g = cl[0]
    ops = list_ops(F, acq, A)
    ok = False
    for (sb, pl, tm, other) in tables.discr_switches(g):
        if {"Window", "Probation", "Protected"} <= set(tm):
            def arm(v):
                reach = g.reachable([tm[v]], avoid=[sb.idx] + [tm[x] for x in tm if x != v and tm[x] != tm[v]])
                return {(f, m) for (f, m, gg, b) in ops if gg is g and b in reach}
            w, p, q = arm("Window"), arm("Probation"), arm("Protected")
            ok = {("window", "remove_from_ptr"), ("window", "push_back")} <= w and not any(f != "window" for f, m in w) and \
                {("probation", "remove_from_ptr"), ("protected", "push_back")} <= p and {("protected", "remove_from_ptr"), ("protected", "push_back")} <= q and not any(f != "protected" for f, m in q)
            # protected overflow inside the Probation arm
            ovf = [b for (f, m, gg, b) in ops if gg is g and f == "protected" and m == "pop_front"]
            found = tables.find_cmp(g, tables.role_field("protected_weight", A), tables.role_field("protected_weight_capacity", A), "comparison of the protected weight with its capacity")
            for c, fl in found:
                tab = tables.table(g, c, fl, ovf)
                ok = ok and tab == ("no", "no", "yes")
    r.require(ok, g, "w-TinyLFU acquire: window->window MRU, probation->protected MRU (+overflow only on >), protected->protected MRU", "queue table honoured",
              "the access rule of w-TinyLFU (refresh in window/protected, promote from probation, overflow protected only when over its share) is not followed", ln=g.lo)


def ghost(r, F):
    """S3-FIFO ghost queue: `push` makes room for the INCOMING entry (pops the oldest while weight + incoming > capacity), `update` shrinks to the new
    capacity (pops while weight > capacity); the three pieces of state (queue, hash set, weight) move together."""
    from sa import affine
    from fractions import Fraction
    G = EV + "::s3fifo::GhostQueue"
    push, upd, pop = F.method(G, "push"), F.method(G, "update"), F.method(G, "pop")

    def overflow_tests(host):
        """comparisons in host, or in a GhostQueue helper it calls (not pop), of (weight [+ x]) with capacity -> [(fn, cmp, flipped, extra)] where extra is the
        affine form, in host's terms, of what is added to the weight"""
        out = []
        cands = [(host, None)]
        for b in host.calls():
            g = F.callee_fn(b.term)
            if g is not None and g.id != pop.id and (g.self_ty or "").startswith(G) and g.id != host.id:
                cands.append((g, b))
        for g, site in cands:
            pops = [b.idx for b in g.calls() if F.callee_fn(b.term) is not None and F.callee_fn(b.term).id == pop.id]
            for c in tables.comparisons(g):
                if c.op not in ("Lt", "Le", "Gt", "Ge"):
                    continue
                a, b2 = affine.affine(g, c.lhs, depth=1), affine.affine(g, c.rhs, depth=1)
                d = dict(a)
                for k, v in b2.items():
                    d[k] = d.get(k, Fraction(0)) - v
                d = {k: v for k, v in d.items() if v != 0}
                wk = [k for k in d if k.endswith(".weight")]
                ck = [k for k in d if k.endswith(".capacity")]
                if len(wk) != 1 or len(ck) != 1 or d[wk[0]] * d[ck[0]] != -1:
                    continue
                fl = d[wk[0]] < 0          # role A (weight side) is the rhs
                sign = d[wk[0]]
                extra = {k: v * sign for k, v in d.items() if k not in (wk[0], ck[0])}
                if site is not None:
                    # translate the helper's parameters into the caller's terms
                    tr = {}
                    for k, v in extra.items():
                        idx = [i for i in range(1, g.argc + 1) if g.local_name(i) == k]
                        if k == "1":
                            tr["1"] = tr.get("1", Fraction(0)) + v
                        elif idx:
                            for kk, vv in affine.affine(host, site.term.args[idx[0] - 1], depth=1).items():
                                tr[kk] = tr.get(kk, Fraction(0)) + v * vv
                        else:
                            tr["?" + k] = v
                    extra = {k: v for k, v in tr.items() if v != 0}
                out.append((g, c, fl, extra, pops, site))
        return out

    inc = push.local_name(3)
    tests = overflow_tests(push)
    r.require(len(tests) == 1, push, "ghost push: one overflow test", "a single (weight + incoming ? capacity) loop test", "GhostQueue::push has %d overflow tests" % len(tests), ln=push.lo)
    for (g, c, fl, extra, pops, _site) in tests:
        tab = tables.table(g, c, fl, pops)
        r.require(extra == {inc: Fraction(1)} and tab[:2] == ("no", "no") and tab[2] != "no", push, "ghost push: pop while weight + incoming > capacity",
                  "compared quantity: weight + %s - capacity; table (<,=,>) -> pop: %s" % (affine.pretty(extra) if extra else "0", tab),
                  "GhostQueue::push must make room for the incoming entry: it pops the oldest entries while weight + incoming > capacity; found the test `weight + (%s) ? capacity` with table (<,=,>) -> pop %s "
                  "— the ghost queue then remembers more (or fewer) keys than the configured ghost ratio, which changes which re-inserted keys are routed to the main queue" % (affine.pretty(extra) if extra else "0", tab), ln=c.ln)
    tests = overflow_tests(upd)
    r.require(len(tests) == 1, upd, "ghost update: one overflow test", "a single (weight ? capacity) loop test", "GhostQueue::update has %d overflow tests" % len(tests), ln=upd.lo)
    for (g, c, fl, extra, pops, _site) in tests:
        tab = tables.table(g, c, fl, pops)
        r.require(not extra and tab[:2] == ("no", "no") and tab[2] != "no", upd, "ghost update: pop while weight > capacity", "table (<,=,>) -> pop: %s" % (tab,),
                  "GhostQueue::update must shrink to the new capacity exactly (pop while weight > capacity); found `weight + (%s) ? capacity` -> %s" % (affine.pretty(extra) if extra else "0", tab), ln=c.ln)
    # termination of the two loops: pop() on an empty queue changes nothing, so the loop may continue only while weight > 0
    for host in (push, upd):
        pops = [b.idx for b in host.calls() if F.callee_fn(b.term) is not None and F.callee_fn(b.term).id == pop.id]
        if not pops:
            continue      # loop lives in a helper: covered through the overflow test's host below
        found = tables.find_cmp(host, tables.role_field("weight", G), tables.role_const(0), "comparison of the ghost weight with 0")
        for c, fl in found:
            tab = tables.table(host, c, fl, pops)
            r.require(tab[1] == "no", host, "ghost loop stops on an empty queue", "table (w<0, w=0, w>0) -> pop: %s" % (tab,),
                      "the ghost queue's shrink loop keeps popping at weight == 0 (an entry heavier than the whole ghost capacity never fits): it never terminates", ln=c.ln)
    # the only early exit is a disabled ghost queue (capacity == 0): with any other capacity push records the key and update shrinks
    for host, acts in ((push, [b.idx for b in push.calls_to(r"VecDeque::<T, A>::push_back$")]), (upd, [(c.sw.idx if site is None else site.idx) for (g, c, fl, extra, pops, site) in overflow_tests(upd)])):
        found = [(c, fl) for (c, fl) in tables.find_cmp(host, tables.role_field("capacity", G), tables.role_const(0), "comparison of the ghost capacity with 0") if c.op in ("Eq", "Ne")]
        for c, fl in found:
            tab = tables.table(host, c, fl, acts)
            r.require(bool(acts) and tab[1] == "no" and tab[2] != "no", host, "ghost %s: disabled iff capacity == 0" % host.short.rsplit("::", 1)[-1], "table (cap<0, =0, >0) -> proceeds: %s" % (tab,),
                      "GhostQueue::%s proceeds on (cap<0,=0,>0) = %s: an enabled ghost queue never remembers a key (nothing is ever routed to main on re-insertion) or a disabled one does" % (host.short.rsplit("::", 1)[-1], tab), ln=c.ln)
    cap = [u for u in tables.field_updates(upd, "capacity", G)]
    r.require(len(cap) == 1 and 2 in backslice(upd, cap[0]["stmt"].rv.ops[0], "prov").args, upd, "ghost update stores the new capacity", "capacity := parameter", "GhostQueue::update does not store the new capacity", ln=upd.lo)
    # state moves together
    pb = push.calls_to(r"VecDeque::<T, A>::push_back$")
    ins = push.calls_to(r"HashSet::<T, S, A>::insert$")
    add = [u for u in tables.field_updates(push, "weight", G) if u["kind"] == "add"]
    ok = len(pb) == 1 and len(ins) == 1 and len(add) == 1
    if ok:
        ok = {2, 3} <= set(backslice(push, pb[0].term.args[1], "dep").args) and 2 in backslice(push, ins[0].term.args[1], "prov").args and \
            any(3 in backslice(push, o, "dep").args for o in add[0]["stmt"].rv.ops) and \
            push.must_pass(pb[0].idx, [ins[0].idx]) and push.must_pass(pb[0].idx, [add[0]["block"]])
    r.require(ok, push, "ghost push: queue, set and weight updated together", "push_back((hash, weight)), counts.insert(hash), weight += weight on the same paths",
              "GhostQueue::push does not record (hash, weight) in the queue, the hash in the set and the weight in the total together", ln=push.lo)
    pf = pop.calls_to(r"VecDeque::<T, A>::pop_front$")
    rm = pop.calls_to(r"HashSet::<T, S, A>::remove$")
    sub = [u for u in tables.field_updates(pop, "weight", G) if u["kind"] == "sub"]
    ok = len(pf) == 1 and len(rm) == 1 and len(sub) == 1
    if ok:
        ok = any(bb == pf[0].idx for bb, _ in backslice(pop, rm[0].term.args[1], "prov").calls) and any(bb == pf[0].idx for o in sub[0]["stmt"].rv.ops for bb, _ in backslice(pop, o, "dep").calls)
    r.require(ok, pop, "ghost pop: oldest first; set and weight follow the popped entry", "pop_front, counts.remove(its hash), weight -= its weight",
              "GhostQueue::pop does not remove the OLDEST entry or does not take its hash out of the set / its weight out of the total", ln=pop.lo)
    ct = F.method(G, "contains")
    r.require(bool(ct.calls_to(r"HashSet::<T, S, A>::contains$")) and 2 in backslice(ct, ct.calls_to(r"HashSet::<T, S, A>::contains$")[0].term.args[1], "prov").args, ct, "ghost contains: by hash", "set membership of the hash",
              "GhostQueue::contains does not test membership of the given hash", ln=ct.lo)


ALGOS = {"fifo::Fifo": {"queue"}, "sieve::Sieve": {"queue"}, "s3fifo::S3Fifo": {"main_queue", "small_queue"}, "lfu::Lfu": {"window", "probation", "protected"},
         "lru::Lru": {"pin_list", "high_priority_list", "list"}}


def bookkeeping(r, F):
    """the per-record and per-queue bookkeeping every step of the algorithms relies on: the in-eviction flag follows list membership, `remove` unlinks from the
    queue the record is tagged with, lookups feed the frequency / visited state, resizes reach every derived capacity"""
    SETF = r"Record::<E>::set_in_eviction$"
    for short, lists in sorted(ALGOS.items()):
        A = EV + "::" + short
        name = short.split("::")[1]
        push, pop, rem = F.method(A, "push", "Eviction"), F.method(A, "pop", "Eviction"), F.method(A, "remove", "Eviction")
        # --- flag: true on push (the pushed record), false on every record handed out by pop / unlinked by remove
        st = [b for b in push.calls_to(SETF) if b.term.args[1].const_val() == 1 and 2 in backslice(push, b.term.args[0], "prov").args]
        r.require(len(st) == 1 and push.must_pass(0, [st[0].idx]), push, "%s push: in-eviction := true" % name, "the pushed record is flagged on every path",
                  "%s::push does not flag the record as in-eviction on every path: RawCacheShard::remove / replace test that flag to decide whether to unlink the record, so it stays linked "
                  "after it left the cache and is later chosen as a victim" % name, ln=push.lo)
        sf = [b for b in rem.calls_to(SETF) if b.term.args[1].const_val() == 0 and 2 in backslice(rem, b.term.args[0], "prov").args]
        r.require(bool(sf) and rem.must_pass(0, [b.idx for b in sf]), rem, "%s remove: in-eviction := false" % name, "the unlinked record is unflagged on every path",
                  "%s::remove does not clear the in-eviction flag on every path" % name, ln=rem.lo)
        thr = [b.idx for b in pop.calls_to(SETF) if b.term.args[1].const_val() == 0]
        for b in pop.calls_to(r"Option::<T>::inspect$"):
            if any(g.calls_to(SETF) and all(c.term.args[1].const_val() == 0 for c in g.calls_to(SETF)) and g.must_pass(0, [c.idx for c in g.calls_to(SETF)]) for g in F.descendants(pop)):
                thr.append(b.idx)
        none = [b.idx for b in pop.calls_to(r"FromResidual<.*>>::from_residual$|FromResidual::from_residual$")] + \
               [b.idx for b in pop.blocks if not b.cleanup for s_ in b.stmts if s_.k == "assign" and s_.place.local == 0 and s_.rv.k == "agg" and s_.rv.j.get("variant") == "None"]
        r.require(bool(thr) and pop.must_pass(0, thr + none), pop, "%s pop: in-eviction := false" % name, "every record handed out as a victim is unflagged (paths returning None excepted)",
                  "%s::pop can return a victim that is still flagged in-eviction" % name, ln=pop.lo)
        # --- remove unlinks from the record's own queue
        e = ends(F, rem, A)
        got = {f for f, ms in e.items() if "remove_from_ptr" in ms}
        r.require(got == lists, rem, "%s remove: unlink in place" % name, "remove_from_ptr on %s" % sorted(got), "%s::remove must unlink the record from the queue that holds it (%s); it unlinks from %s — "
                  "a removed record that stays linked is evicted again later" % (name, sorted(lists), sorted(got)), ln=rem.lo)
        ops = list_ops(F, rem, A)
        for (sb, pl, tm, other) in tables.discr_switches(rem):
            tagmap = {"Main": "main_queue", "Small": "small_queue", "Window": "window", "Probation": "probation", "Protected": "protected"}
            vs = [v for v in tm if v in tagmap and tagmap[v] in lists]
            if len(vs) < 2:
                continue
            for v in vs:
                reach = rem.reachable([tm[v]], avoid=[sb.idx] + [tm[x] for x in tm if x != v and tm[x] != tm[v]])
                here = {f for (f, m, g, b) in ops if g is rem and b in reach and m == "remove_from_ptr"}
                r.require(here == {tagmap[v]}, rem, "%s remove: tag %s -> %s" % (name, v, tagmap[v]), "the arm of tag %s unlinks from %s" % (v, tagmap[v]),
                          "%s::remove unlinks a record tagged %s from %s: remove_from_ptr on a list that does not hold the record corrupts both lists" % (name, v, sorted(here)), ln=rem.lo)
    # --- LRU clear also drains the pin list (held entries): each of them is unflagged too
    LR = EV + "::lru::Lru"
    clr = F.method(LR, "clear", "Eviction")
    pins = [b for (f_, m, g, b) in list_ops(F, clr, LR) if f_ == "pin_list" and m == "pop_front" and g is clr]
    sf = [b.idx for b in clr.calls_to(SETF) if b.term.args[1].const_val() == 0]
    ok = bool(pins) and bool(sf) and bool(clr.calls_to(r"Lru::<K, V, P> as .*Eviction>::pop$|eviction::Eviction::pop$|::pop$"))
    for pb in pins:
        for (sb, pl, tm, other) in tables.variant_switch_on(clr, pb):
            if "Some" in tm:
                reach = clr.reachable([tm["Some"]], avoid=sf)
                ok = ok and not (set(clr.returns() + [pb]) & reach)
    r.require(ok, clr, "Lru clear: pinned records are unflagged", "every record popped from the pin list gets in-eviction := false before the next one; unpinned ones go through pop()",
              "Lru::clear leaves pinned (held) records flagged in-eviction after unlinking them: when their handle is released the release operator re-links a record that no longer belongs to the cache", ln=clr.lo)
    # --- S3-FIFO: lookups raise the frequency; accessors touch the frequency cell; resize reaches the ghost queue and the small share
    S3, ST = EV + "::s3fifo::S3Fifo", EV + "::s3fifo::S3FifoState"
    acq = F.method(S3, "acquire", "Eviction")
    cl = [g for g in F.descendants(acq) if g.calls_to(r"S3FifoState::inc_frequency$")]
    r.require(len(cl) == 1 and cl[0].must_pass(0, [b.idx for b in cl[0].calls_to(r"S3FifoState::inc_frequency$")]), acq, "S3-FIFO acquire: inc_frequency on every lookup", "the access operator raises the record's frequency unconditionally",
              "S3-FIFO lookups do not raise the entry's frequency: nothing is ever promoted from the small queue or re-inserted in main", ln=acq.lo)
    for meth, pat, argp in (("frequency", r"::load$", None), ("set_frequency", r"::store$", 2), ("inc_frequency", r"::fetch_update", None), ("dec_frequency", r"::fetch_update", None)):
        f = F.method(ST, meth)
        cs = [b for b in f.calls_to(pat) if backslice(f, b.term.args[0], "prov").has_field("frequency", ST)]
        ok = len(cs) == 1 and f.must_pass(0, [cs[0].idx]) and (argp is None or argp in backslice(f, cs[0].term.args[1], "prov").args)
        r.require(ok, f, "S3FifoState::%s acts on the frequency cell" % meth, "atomic %s on .frequency" % pat.strip(":$\\"), "S3FifoState::%s does not read / write the record's frequency" % meth, ln=f.lo)
    upd = F.method(S3, "update", "Eviction")
    errs = [b.idx for b in upd.calls_to(r"error::Error::new$")]
    gu = upd.calls_to(r"GhostQueue::update$")
    okg = len(gu) == 1 and upd.must_pass(0, [gu[0].idx] + errs)
    if okg:
        sl = backslice(upd, gu[0].term.args[1], "dep")
        okg = 2 in sl.args and sl.has_field("ghost_queue_capacity_ratio")
    r.require(okg, upd, "S3-FIFO update: ghost capacity follows the new capacity", "GhostQueue::update(capacity * ghost ratio) on every accepted update",
              "S3Fifo::update (resize) does not resize the ghost queue from the new capacity and the ghost ratio", ln=upd.lo)
    for A2, fld, ratio in ((S3, "small_weight_capacity", "small_queue_capacity_ratio"), (EV + "::lfu::Lfu", "window_weight_capacity", "window_capacity_ratio"),
                           (EV + "::lfu::Lfu", "protected_weight_capacity", "protected_capacity_ratio"), (EV + "::lru::Lru", "high_priority_weight_capacity", "high_priority_pool_ratio")):
        u = F.method(A2, "update", "Eviction")
        ups = tables.field_updates(u, fld, A2)
        errs = [b.idx for b in u.calls_to(r"error::Error::new$")]
        ok = bool(ups) and u.must_pass(0, [x["block"] for x in ups] + errs)
        if ok:
            sl = backslice(u, ups[0]["stmt"].rv.ops[0], "dep")
            ok = 2 in sl.args and sl.has_field(ratio)
        r.require(ok, u, "%s update: %s follows the new capacity" % (A2.rsplit("::", 1)[-1], fld), "%s := capacity * %s on every accepted update" % (fld, ratio),
                  "%s::update (resize) does not recompute %s from the new capacity and %s: the queue keeps its old share" % (A2.rsplit("::", 1)[-1], fld, ratio), ln=u.lo)
    # --- SIEVE: the visited bit is a real cell; a visited entry advances the hand before the next test
    SS = EV + "::sieve::SieveState"
    sv, iv = F.method(SS, "set_visited"), F.method(SS, "is_visited")
    c1 = [b for b in sv.calls_to(r"::store$") if backslice(sv, b.term.args[0], "prov").has_field("visited", SS) and 2 in backslice(sv, b.term.args[1], "prov").args]
    c2 = [b for b in iv.calls_to(r"::load$") if backslice(iv, b.term.args[0], "prov").has_field("visited", SS)]
    r.require(len(c1) == 1 and sv.must_pass(0, [c1[0].idx]) and len(c2) == 1, sv, "SIEVE visited bit: set stores the argument, is loads it", "store(param) / load on .visited",
              "SieveState::set_visited / is_visited do not write / read the visited bit", ln=sv.lo)
    pop = F.method(EV + "::sieve::Sieve", "pop", "Eviction")
    vis = pop.calls_to(r"SieveState::is_visited$")
    get = [b.idx for b in pop.calls_to(r"CursorMut::<'a, A>::get$")]
    adv = [b.idx for b in pop.calls_to(r"CursorMut::<'a, A>::move_next$")] + [b.idx for b in pop.calls_to(r"LinkedList::<A>::front_mut$") if pop.reachable([vis[0].idx]) and b.idx in pop.reachable([vis[0].idx])] if vis else []
    ok = False
    if vis and get and adv:
        for (swb, neg) in tables._bool_switches_on(pop, vis[0].idx):
            tt, ft = tables.bool_switch_targets(swb)
            if neg:
                tt, ft = ft, tt
            ok = pop.must_pass(tt, adv, targets=get + pop.returns()) and bool(pop.calls_to(r"CursorMut::<'a, A>::move_next$"))
    r.require(ok, pop, "SIEVE: a visited entry moves the hand on", "from the visited edge every path back to the test passes move_next / the wrap to the head",
              "SIEVE pop re-tests the same entry after clearing its visited bit without advancing the hand (the scan order is no longer the queue order)", ln=pop.lo)
    # --- w-TinyLFU: insertions and lookups feed the sketch
    L = EV + "::lfu::Lfu"
    push = F.method(L, "push", "Eviction")
    uf = [b for b in push.calls_to(r"Lfu::<K, V, P>::update_frequencies$")]
    r.require(len(uf) == 1 and push.must_pass(0, [uf[0].idx]) and backslice(push, uf[0].term.args[1], "prov").has_call(r"Record::<E>::hash$"), push, "w-TinyLFU push feeds the sketch", "update_frequencies(record.hash()) on every push",
              "Lfu::push does not count the insertion in the frequency sketch", ln=push.lo)
    acq = F.method(L, "acquire", "Eviction")
    cl = [g for g in F.descendants(acq) if g.calls_to(r"Lfu::<K, V, P>::update_frequencies$")]
    okq = False
    if len(cl) == 1:
        ufb = [b.idx for b in cl[0].calls_to(r"Lfu::<K, V, P>::update_frequencies$")]
        sws = [sb for (sb, pl, tm, other) in tables.discr_switches(cl[0]) if {"Window", "Probation", "Protected"} <= set(tm)]
        # every lookup of a record that is linked in a queue is counted: the sketch update dominates the queue dispatch
        okq = bool(sws) and all(any(cl[0].dominates(u, sb.idx) for u in ufb) for sb in sws)
    r.require(okq, acq, "w-TinyLFU acquire feeds the sketch", "update_frequencies dominates the queue dispatch of the access operator",
              "Lfu lookups are not counted in the frequency sketch on every path: the admission comparison works on stale frequencies", ln=acq.lo)
    ufn = F.method(L, "update_frequencies")
    cu = ufn.calls_to(r"CountMinSketch::<\w+>::update$|CountMinSketch<.*>::update$|::update$")
    r.require(bool(cu) and ufn.must_pass(0, [cu[0].idx]) and 2 in backslice(ufn, cu[0].term.args[1], "dep").args, ufn, "update_frequencies updates the sketch with the hash", "sketch.update(key(hash)) unconditionally",
              "Lfu::update_frequencies does not add the hash to the sketch", ln=ufn.lo)


def _variant_of(fn, op):
    """variant name of an enum-valued operand built from a constant (through moves), or None when it is read from memory"""
    seen = set()
    while op is not None and op.place is not None and op.place.is_local() and op.place.local not in seen:
        seen.add(op.place.local)
        ds = [d for d in fn.defs().get(op.place.local, []) if d[2] == "assign" and not fn.blocks[d[0]].cleanup]
        if len(ds) != 1:
            return None
        rv = ds[0][3].rv
        if rv.k == "agg" and rv.j.get("variant"):
            return rv.j["variant"]
        if rv.k == "use":
            op = rv.ops[0]
            continue
        return None
    return None


def queue_accounting(r, F):
    """S3-FIFO and w-TinyLFU keep one weight counter and one tag per queue; the overflow / promotion tests read those counters. Every step that takes a record
    out of queue X either puts it back into X (refresh) or subtracts its weight from X's counter on every path; every step that links a record into X is preceded
    (or followed) by the matching addition and by tagging the record with X."""
    SPEC = {
        EV + "::s3fifo::S3Fifo": {"lists": {"small_queue": ("small_weight", "Small"), "main_queue": ("main_weight", "Main")}, "tagfield": "queue"},
        EV + "::lfu::Lfu": {"lists": {"window": ("window_weight", "Window"), "probation": ("probation_weight", "Probation"), "protected": ("protected_weight", "Protected")}, "tagfield": "queue"},
    }
    total = 0
    for A, spec in sorted(SPEC.items()):
        name = A.rsplit("::", 1)[-1]
        bodies = [f for f in F.all_fns("P") if (F.P.get(f.root, f).self_ty or "").startswith(A) and not f.id.rsplit("::", 1)[-1] in ("new", "dump")]
        roots = {}
        for f in bodies:
            roots.setdefault(f.root, []).append(f)
        for rid, fs in sorted(roots.items()):
            root = F.P.get(rid)
            if root is None or "::tests::" in root.short or "test_utils" in root.short or root.id.rsplit("::", 1)[-1] in ("increase_queue_weight", "decrease_queue_weight"):
                continue
            for g in fs:
                ops = [(f_, m, b) for (f_, m, gg, b) in list_ops(F, g, A, with_closures=False) if f_ in spec["lists"]]
                if not ops:
                    continue
                # weight events of g
                wev = {}   # (kind, X or "*") -> [block]
                for fld, (wf, tag) in spec["lists"].items():
                    for u in tables.field_updates(g, wf, A):
                        if u["kind"] in ("add", "sub"):
                            wev.setdefault((u["kind"], fld), []).append(u["block"])
                for b in g.calls_to(r"::(in|de)crease_queue_weight$"):
                    kind = "add" if b.term.callee.endswith("increase_queue_weight") else "sub"
                    v = _variant_of(g, b.term.args[1])
                    fld = [f_ for f_, (wf, tag) in spec["lists"].items() if tag == v]
                    wev.setdefault((kind, fld[0] if fld else "*"), []).append(b.idx)
                tags = {}
                for b in g.blocks:
                    if b.cleanup:
                        continue
                    for st in b.stmts:
                        if st.k == "assign" and st.place.proj and st.place.fields()[-1:] == [spec["tagfield"]]:
                            v = _variant_of(g, st.rv.ops[0]) if st.rv.k == "use" else (st.rv.j.get("variant") if st.rv.k == "agg" else None)
                            fld = [f_ for f_, (wf, tag) in spec["lists"].items() if tag == v]
                            if fld:
                                tags.setdefault(fld[0], []).append(b.idx)
                none = [b.idx for b in g.calls_to(r"FromResidual")] + [b.idx for b in g.blocks if not b.cleanup for s_ in b.stmts if s_.k == "assign" and s_.place.local == 0 and s_.rv.k == "agg" and s_.rv.j.get("variant") == "None"]
                gr = g.graph()
                for (X, m, b) in ops:
                    links_X = [bb for (x2, m2, bb) in ops if x2 == X and m2 == "push_back"]
                    if m in ("pop_front", "pop_back", "remove_from_ptr", "remove"):
                        total += 1
                        through = set(links_X) | set(wev.get(("sub", X), [])) | set(wev.get(("sub", "*"), [])) | set(none)
                        # every path leaving the unlink site reaches a re-link into X, a subtraction from X's counter, or a `nothing was unlinked` exit, before returning / unlinking again
                        reach = g.reachable([s_ for s_ in gr[b] if not g.blocks[s_].cleanup], avoid=through)
                        bad = [t for t in g.returns() + [b] if t in reach]
                        if g is not root and not bad:
                            pass
                        if g is not root and bad and not wev:
                            # a closure that only unlinks (e.g. `|| self.protected.pop_front()`): its result is accounted for by the caller; judge at the call that receives the closure
                            site = [c.idx for c in root.calls() if any(a.place is not None and ("%s:%d:" % (g.file.rsplit("/", 1)[-1], g.lo)) in (root.local_ty(a.place.local) or "") for a in c.term.args)]
                            rw = [x.idx for x in root.calls_to(r"::decrease_queue_weight$")] + [u["block"] for fld2, (wf, tag) in spec["lists"].items() for u in tables.field_updates(root, wf, A) if u["kind"] == "sub"]
                            rnone = [x.idx for x in root.calls_to(r"FromResidual")] + [bb.idx for bb in root.blocks if not bb.cleanup for s_ in bb.stmts if s_.k == "assign" and s_.place.local == 0 and s_.rv.k == "agg" and s_.rv.j.get("variant") == "None"]
                            bad = [] if site and all(root.must_pass(sx, rw + rnone) for sx in site) else bad
                        r.require(not bad, g, "%s: unlink from %s is re-linked or subtracted" % (name, X), "every path after %s on %s passes a push_back into it, `%s -= weight`, or a None exit" % (m, X, spec["lists"][X][0]),
                                  "%s: a record is taken out of `%s` (%s) and a path returns without putting it back or subtracting its weight from %s: the counter drifts upwards and the queue's "
                                  "overflow / capacity test fires for entries that are no longer there" % (name, X, m, spec["lists"][X][0]), ln=g.blocks[b].term.ln)
                    elif m == "push_back":
                        total += 1
                        # where does the linked record come from? an unlink in this body (then its queue Y is known) or the caller
                        src = backslice(g, g.blocks[b].term.args[1], "prov", extra_transparent=[r"Option::<T>::unwrap$", r"Clone::clone$"])
                        from_unlink = [(x2, bb) for (x2, m2, bb) in ops if m2 != "push_back" and any(cb == bb for cb, _ in src.calls)]
                        if any(x2 == X for x2, _ in from_unlink):
                            okw = okt = True          # refreshed in place: counter and tag unchanged
                        else:
                            fresh = (lambda p_: all(g.dominates(ub, p_) for _, ub in from_unlink)) if from_unlink else (lambda p_: True)
                            adds = [p_ for p_ in wev.get(("add", X), []) if fresh(p_)]
                            tgs = [p_ for p_ in tags.get(X, []) if fresh(p_)]
                            okw = any(g.dominates(p_, b) for p_ in adds) or g.must_pass(b, adds)
                            okt = any(g.dominates(p_, b) for p_ in tgs) or g.must_pass(b, tgs)
                        r.require(okw and okt, g, "%s: link into %s is counted and tagged" % (name, X), "`%s += weight` and tag %s accompany the push_back (after the unlink that produced the record), or the record was unlinked from the same queue" % spec["lists"][X],
                                  "%s: a record is linked into `%s` without %s%s: %s" % (name, X, "" if okw else "`%s += weight`" % spec["lists"][X][0], "" if okt else " the tag %s" % spec["lists"][X][1],
                                  "the queue's counter no longer matches its content" if not okw else "`remove` dispatches on the tag and would unlink from the wrong list"), ln=g.blocks[b].term.ln)
    if total < 20:
        r.fail(None, "sites", "only %d queue link/unlink sites analysed (20+ confirmed on the pinned tree)" % total)


def run(chk, F):
    chk.run_rule("C14.fifo", "FIFO: push back, pop front, no reordering on lookup", 4, fifo, F)
    chk.run_rule("C14.lru", "LRU: hint table, low-priority first, pop from the front, never the pin list, pool overflow only when over the share and re-run at every growth site, pin / unpin to the MRU end", 11, lru, F)
    chk.run_rule("C14.s3fifo", "S3-FIFO: ghost routing, small-first when over share, promotion at freq >= threshold else evict + ghost, main re-insertion while freq > 0, saturation", 6, s3fifo, F)
    chk.run_rule("C14.ghost-queue", "S3-FIFO ghost queue: push makes room for the incoming entry (pop while weight + incoming > capacity), update shrinks exactly, queue / set / weight move together", 7, ghost, F)
    chk.run_rule("C14.bookkeeping", "in-eviction flag follows list membership; remove unlinks from the tagged queue; lookups feed frequency / visited / sketch; resize reaches every derived capacity", 35, bookkeeping, F)
    chk.run_rule("C14.queue-accounting", "S3-FIFO / w-TinyLFU: every unlink is re-linked or subtracted from its queue's weight on every path; every link is counted and tagged", 20, queue_accounting, F)
    chk.run_rule("C14.sieve", "SIEVE: tail insert, scan from the hand or head, visited -> clear + advance, unvisited -> evict, hand := successor, lookups only mark", 5, sieve, F)
    chk.run_rule("C14.lfu", "w-TinyLFU: window admission and overflow, head-to-head sketch comparison (window evicted only when strictly colder), access table", 5, lfu, F)
