"""C13 — each entry leaves memory exactly once, with the right reason and disk hand-off (DESIGN.md §4 C13)."""
import re

from sa import mir, tables, flow, locks
from sa.mir import backslice, AnchorMissing
from rules import C18

TITLE = ("C13: who may call the pipe, Evict-only piping, event constants per leave path, no record leaves the index silently, the four "
         "garbage-draining siblings agree.")
NOT_DECIDED = [
    "exactly-once over histories (conservation of notifications across operation sequences)",
    "multi-threaded interleavings of leave notifications",
    "that the listener is not invoked while a lookup can still find the entry (decided only as: notifications happen after the index removal and outside the lock, C16)",
]

RAW = "foyer_memory::raw"
EVENT = "foyer_common::event::Event"
SEND = r"^foyer_memory::pipe::Pipe::send$"
FLUSH = r"^foyer_memory::pipe::Pipe::flush$"
ON_LEAVE = r"^foyer_common::event::EventListener::on_leave$"


def _mem_fns(F):
    return [f for f in F.all_fns("P") if f.crate.name == "foyer_memory"]


def pipe_callers(r, F):
    allowed_send = {"foyer_memory::raw::RawCache::insert_inner", "foyer_memory::raw::RawCache::evict_all",
                    "<foyer_memory::raw::RawCacheEntry<E, S, I> as std::ops::Drop>::drop"}
    n = 0
    for f in _mem_fns(F):
        for b in f.calls_to(SEND):
            n += 1
            root = F.P.get(f.root, f)
            ok = root.short in allowed_send or root.short == "foyer_memory::raw::RawCache::resize"
            r.require(ok, f, "Pipe::send caller", "piping happens on a capacity-eviction path (insert / evict_all / resize / last drop of a disk-only entry)",
                      "Pipe::send is called from `%s`: entries that were replaced, removed or cleared must not be offered to the disk tier" % root.short, ln=b.term.ln)
        for b in f.calls_to(FLUSH):
            n += 1
            root = F.P.get(f.root, f)
            r.require(root.short == "foyer_memory::raw::RawCache::flush", f, "Pipe::flush caller", "only RawCache::flush hands batches to the pipe",
                      "Pipe::flush is called from `%s`" % root.short, ln=b.term.ln)
    if n < 5:
        r.fail(None, "sites", "only %d pipe call sites found in foyer-memory (5 confirmed)" % n)


def evict_only(r, F):
    """at the garbage-draining sites the send is control-dependent on event == Event::Evict"""
    n = 0
    for f in _mem_fns(F):
        if (f.impl_trait or "").endswith("Drop"):
            continue
        for b in f.calls_to(SEND):
            n += 1
            atoms = tables.variant_atoms(f, EVENT, "Evict")
            r.require(tables.guarded_by_eq(f, atoms, b.idx), f, "send guarded by event==Evict", "only capacity evictions are piped (test at line %s)" % sorted({a.ln for a in atoms}),
                      "Pipe::send is not control-dependent on `event == Event::Evict`: replaced / removed entries are written to disk", ln=b.term.ln)
    if n < 3:
        r.fail(None, "sites", "only %d garbage-draining send sites found (3 confirmed: insert_inner, evict_all, resize)" % n)
    # RawCache::flush forwards garbages that come only from evict(0, ..), which pushes only Event::Evict
    fl = F.fn("foyer_memory::raw::RawCache::flush::{closure#0}")
    evs = fl.calls_to(r"RawCacheShard::<E, S, I>::evict$")
    fls = fl.calls_to(FLUSH)
    if not evs or not fls:
        raise AnchorMissing("RawCache::flush: evict / Pipe::flush not found")
    src = backslice(fl, fls[0].term.args[1], "dep")
    shard_calls = {mir.short_path(t.callee).rsplit("::", 1)[-1] for _, t in src.calls if t.callee and "RawCacheShard" in t.callee}
    pushes_here = [t for _, t in src.calls if t.callee and t.callee.endswith("Vec::<T, A>::push")]
    r.require(shard_calls == {"evict"} and not pushes_here, fl, "flush pipes evict() garbage only",
              "the batch handed to Pipe::flush is filled by RawCacheShard::evict only", "RawCache::flush pipes records that do not come from evict(): %s" % sorted(shard_calls), ln=fls[0].term.ln)
    ev = F.method("foyer_memory::raw::RawCacheShard", "evict")
    pushes = ev.calls_to(r"Vec::<T, A>::push$")
    vs = set()
    for p in pushes:
        sl = backslice(ev, p.term.args[1], "dep")
        vs |= {s.rv.j.get("variant") for _, s in sl.aggs if s.rv.j.get("adt") == EVENT}
    r.require(vs == {"Evict"}, ev, "evict pushes Event::Evict", "victims are tagged Evict", "RawCacheShard::evict tags its victims %s" % sorted(vs), ln=ev.lo)


def events(r, F):
    """the constant pushed / notified on each leave path"""
    em = F.method("foyer_memory::raw::RawCacheShard", "emplace")
    # per push: (event variant, record provenance)
    seen = {}
    for p in em.calls_to(r"Vec::<T, A>::push$"):
        if 3 not in backslice(em, p.term.args[0], "prov").args:
            continue
        a = p.term.args[1]
        ds = [d for d in em.defs().get(a.place.local, []) if d[2] == "assign" and d[3].rv.k == "agg" and not em.blocks[d[0]].cleanup] if a.place is not None else []
        if len(ds) != 1 or len(ds[0][3].rv.ops) != 2:
            continue
        evop, recop = ds[0][3].rv.ops
        ev = {s.rv.j.get("variant") for _, s in backslice(em, evop, "prov").aggs if s.rv.j.get("adt") == EVENT}
        rsl = backslice(em, recop, "prov")
        from_remove = rsl.has_call(r"indexer::Indexer::remove$")
        from_insert = rsl.has_call(r"indexer::Indexer::insert$")
        is_self = 2 in rsl.args and not from_remove and not from_insert
        who = "replaced-by-phantom" if from_remove else ("replaced" if from_insert else ("self" if is_self else "?"))
        seen[who] = seen.get(who, set()) | ev
    r.require(seen.get("replaced") == {"Replace"}, em, "replaced record -> Event::Replace", "the record swapped out of the index leaves with Replace", "the replaced record is tagged %s" % seen.get("replaced"), ln=em.lo)
    r.require(seen.get("replaced-by-phantom") == {"Replace"}, em, "record replaced by a disk-only insert -> Event::Replace", "tagged Replace", "tagged %s" % seen.get("replaced-by-phantom"), ln=em.lo)
    # ... and on every path of the disk-only branch (the never-admitted record always gets its leave notification)
    ph = em.calls_to(r"Properties::phantom$")
    self_pushes = []
    for p_ in em.calls_to(r"Vec::<T, A>::push$"):
        if 3 not in backslice(em, p_.term.args[0], "prov").args or p_.term.args[1].place is None:
            continue
        ds = [d for d in em.defs().get(p_.term.args[1].place.local, []) if d[2] == "assign" and d[3].rv.k == "agg" and not em.blocks[d[0]].cleanup]
        if len(ds) == 1 and len(ds[0][3].rv.ops) == 2:
            rsl = backslice(em, ds[0][3].rv.ops[1], "prov")
            if 2 in rsl.args and not rsl.has_call(r"indexer::Indexer::(remove|insert)$"):
                self_pushes.append(p_.idx)
    okp = False
    if len(ph) == 1:
        for b in em.blocks:
            if b.cleanup or b.term.k != "switch" or b.term.discr.place is None:
                continue
            if any(bb == ph[0].idx for bb, _ in backslice(em, b.term.discr, "prov", extra_transparent=[r"Option::<T>::unwrap_or(_default)?$"]).calls):
                tt, ft = tables.bool_switch_targets(b)
                okp = bool(self_pushes) and em.must_pass(tt, self_pushes)
    r.require(okp, em, "phantom record is queued on every path of its branch", "from the `phantom` edge every path pushes (Remove, record)",
              "the disk-only branch of emplace can return without queueing the record itself: it leaves memory without a notification and is never offered to the disk tier", ln=em.lo)
    r.require(seen.get("self") == {"Remove"}, em, "phantom record itself -> Event::Remove", "the never-admitted record leaves with Remove", "the phantom record is tagged %s" % seen.get("self"), ln=em.lo)
    # remove -> listener Remove ; clear -> listener Clear ; last drop of a phantom -> Evict
    for short, want in (("foyer_memory::raw::RawCache::remove", "Remove"), ("foyer_memory::raw::RawCacheInner::clear", "Clear"),
                        ("<foyer_memory::raw::RawCacheEntry<E, S, I> as std::ops::Drop>::drop", "Evict")):
        root = F.fn(short)
        bodies = [root] + F.descendants(root)
        vs, n = set(), 0
        for g in bodies:
            for b in g.calls_to(ON_LEAVE):
                n += 1
                sl = backslice(g, b.term.args[1], "prov")
                vs |= {s.rv.j.get("variant") for _, s in sl.aggs if s.rv.j.get("adt") == EVENT}
        r.require(n >= 1 and vs == {want}, root, "listener notified with Event::%s" % want, "the leave reason matches what happened",
                  "`%s` notifies the listener with %s instead of Event::%s (or not at all)" % (short, sorted(vs), want), ln=root.lo)
    # the draining sites forward the event they dequeued (not a constant)
    for short in ("foyer_memory::raw::RawCache::insert_inner", "foyer_memory::raw::RawCache::evict_all"):
        f = F.fn(short)
        for b in f.calls_to(ON_LEAVE):
            sl = backslice(f, b.term.args[1], "prov")
            r.require(sl.has_call(r"Iterator::next$") and not sl.aggs or any(s.rv.j.get("ak") == "tuple" for _, s in sl.aggs) or sl.has_call(r"Iterator::next$"), f,
                      "listener gets the dequeued event", "the event stored with the record is forwarded", "the listener is given a constant event instead of the one recorded for the record", ln=b.term.ln)


def no_silent_drop(r, F):
    """every Arc<Record> leaving the index ends in `garbages` (with an event) or in the return value"""
    def sink(f, s, idx, kind):
        if kind == "call" and s.callee and s.callee.endswith("Vec::<T, A>::push") and idx == 1:
            return "push"
        return None
    n = 0
    for f in _mem_fns(F):
        if not (f.self_ty or "").startswith("foyer_memory::raw::RawCacheShard"):
            continue
        for b in f.calls_to(r"^foyer_memory::indexer::Indexer::(remove|insert|drain)$"):
            n += 1
            what = b.term.callee.rsplit("::", 1)[-1]
            fl = flow.forward(F, f, [b.term.dest.local], sink=sink)
            stored = [s for s in fl.stored if s[3].args & {l for l in range(1, f.argc + 1) if "Vec<" in f.local_ty(l)}]
            returned = any(g is f for g in fl.returned)
            pushed = bool(fl.sinks) or bool(stored)
            if f.short.endswith("::evict") and what == "remove":
                # `e` is asserted ptr-equal to `evicted`, which is the one queued (allow-listed in C16 as well)
                pops = f.calls_to(r"eviction::Eviction::pop$")
                fl2 = flow.forward(F, f, [pops[0].term.dest.local], sink=sink) if pops else None
                pushed = pushed or (fl2 is not None and (bool(fl2.sinks) or bool(fl2.stored)))
            r.require(pushed or returned, f, "record from Indexer::%s is queued or returned" % what,
                      "the record leaving the index is %s" % ("queued in `garbages`" if pushed else "returned to the caller"),
                      "a record taken out of the index by Indexer::%s is neither queued in `garbages` nor returned: it leaves memory without any notification" % what, ln=b.term.ln)
    if n < 5:
        r.fail(None, "sites", "only %d index removals found in RawCacheShard (5 confirmed)" % n)


def siblings(r, F):
    """the garbage-draining sites agree: listener for every element, pipe under the Evict guard, both after the guard is released"""
    A = locks.analysis(F)
    sites = ["foyer_memory::raw::RawCache::insert_inner", "foyer_memory::raw::RawCache::evict_all", "foyer_memory::raw::RawCache::resize::{closure#1}::{closure#0}"]
    for short in sites:
        f = F.fn(short)
        ons = f.calls_to(ON_LEAVE)
        snd = f.calls_to(SEND)
        nxt = [b for b in f.calls_to(r"Iterator::next$")]
        ok = bool(ons) and bool(snd) and bool(nxt)
        if ok:
            # both calls sit in the loop over the garbage list: on a cycle through a `next`
            for c in ons + snd:
                ok = ok and any(n.idx in f.reachable([c.idx]) and c.idx in f.reachable([n.idx]) for n in nxt)
            # listener is notified for every element when present: its only guard inside the loop is the Option<listener> test
            for o in ons:
                atoms = tables.variant_atoms(f, EVENT, "Evict")
                ok = ok and not tables.guarded_by_eq(f, atoms, o.idx)
        # ... and the pipe gets EVERY evicted record: from the edge on which `event == Evict` holds, every path to the next element passes Pipe::send
        atoms = tables.variant_atoms(f, EVENT, "Evict")
        eq_targets = [t for a in atoms for (_, t) in a.eq_edges]
        okall = bool(eq_targets) and bool(snd)
        for t0 in eq_targets:
            reach = f.reachable([t0], avoid=[c.idx for c in snd])
            okall = okall and not (set(f.returns() + [n.idx for n in nxt]) & reach)
        r.require(okall, f, "every evicted record is offered to the pipe", "no further condition between `piped && event == Evict` and Pipe::send",
                  "a record dequeued with Event::Evict can skip Pipe::send (an extra condition on the piping path): it leaves memory by eviction without being offered to the disk tier", ln=f.lo)
        r.require(ok, f, "drain loop: listener for each, pipe for evicted", "listener notified for every dequeued record, pipe only under the Evict test, both inside the drain loop",
                  "this garbage-draining site does not notify the listener for every record / pipe inside the loop like its siblings", ln=f.lo)
        for c in ons + snd:
            held = {cl for (k, cl) in A.held_at(f.id, next((h for (b, t, h) in A.bodies[f.id].calls if b == c.idx), frozenset()))} if f.id in A.bodies and A.bodies[f.id].fn.form == "P" else set()
        hs = {cl for (k, cl) in A.ctx[f.id]}
        r.require("foyer_memory::raw::RawCacheShard" not in hs, f, "drain runs outside the shard lock", "no shard lock can be held when this body runs",
                  "the garbage list is drained while the shard lock may be held", ln=f.lo)


def drain_sites(r, F):
    """every body that creates a garbage list `Vec<(Event, Arc<Record>)>` drains it: the listener is notified once per element (a loop over the list whose only
    guard is the presence of a listener) and the evicted ones are offered to the pipe (send per element, or Pipe::flush with a piece per element)"""
    n = 0
    for f in F.all_fns("P"):
        if f.crate.name != "foyer_memory" or "::tests::" in f.short or "test_utils" in f.file or not f.file.endswith("raw.rs"):
            continue
        ls = [l for l in range(f.nlocals) if re.match(r"^std::vec::Vec<\(foyer_common::event::Event, std::sync::Arc<", f.local_ty(l) or "")]
        if not ls or not f.calls_to(r"Vec::<T>::new$|vec::from_elem|Vec::<T, A>::with_capacity"):
            continue
        n += 1
        ons = f.calls_to(ON_LEAVE)
        nxt = f.calls_to(r"Iterator::next$")
        ok = bool(ons) and all(any(x.idx in f.reachable([c.idx]) and c.idx in f.reachable([x.idx]) for x in nxt) for c in ons)
        # the element handed to the listener comes out of the garbage list
        ok = ok and all(set(ls) & backslice(f, c.term.args[2], "dep").locals for c in ons)
        r.require(ok, f, "garbage list drained to the listener", "on_leave(event, key, value) inside a loop over the list this body filled",
                  "this body fills a garbage list but does not notify the listener for each of its records: entries leave memory without their leave notification", ln=f.lo)
        snd = f.calls_to(SEND)
        fl = f.calls_to(r"pipe::Pipe::flush$")
        okp = bool(snd) or bool(fl)
        for c in fl:
            sl = backslice(f, c.term.args[1], "dep")
            okp = okp and bool(set(ls) & sl.locals) and any(g.calls_to(r"pipe::Piece::<K, V, P>::new$") for g in F.descendants(f))
        r.require(okp, f, "garbage list offered to the pipe", "Pipe::send per evicted element / Pipe::flush with a Piece per element", "this body fills a garbage list but never offers it to the pipe", ln=f.lo)
    if n < 4:
        r.fail(None, "sites", "only %d bodies creating a garbage list found (4 confirmed: insert_inner, evict_all, resize, flush)" % n)


def _delegates(F, f, pat):
    """f (or, when an attribute macro wrapped its body, its only closure) calls `pat` on every path"""
    for g in [f] + F.descendants(f):
        cs = g.calls_to(pat)
        if cs and g.must_pass(0, [b.idx for b in cs]):
            return True
    return False


def clear_chain(r, F):
    """clear() and the drop of the cache reach every shard: RawCache::clear -> RawCacheInner::clear -> RawCacheShard::clear for each shard (no filtering), and
    dropping the last RawCacheInner runs the same clear (so that every resident entry gets its Clear notification)"""
    rc = F.method("foyer_memory::raw::RawCache", "clear")
    r.require(_delegates(F, rc, r"RawCacheInner::<E, S, I>::clear$"), rc, "RawCache::clear -> RawCacheInner::clear", "delegates on every path",
              "RawCache::clear does not call RawCacheInner::clear: Cache::clear() returns without removing or notifying anything", ln=rc.lo)
    dr = F.method("foyer_memory::raw::RawCacheInner", "drop", "Drop")
    r.require(_delegates(F, dr, r"RawCacheInner::<E, S, I>::clear$"), dr, "drop(RawCacheInner) -> clear", "the last owner's drop clears the cache",
              "dropping the cache does not run clear(): resident entries leave memory without their Clear notification", ln=dr.lo)
    ic = F.method("foyer_memory::raw::RawCacheInner", "clear")
    bodies = [ic] + F.descendants(ic)
    sc = [g for g in bodies if g.calls_to(r"RawCacheShard::<E, S, I>::clear$") and g.must_pass(0, [b.idx for b in g.calls_to(r"RawCacheShard::<E, S, I>::clear$")])]
    filt = [b for g in bodies for b in g.calls_to(r"Iterator::(filter|take|skip|step_by|take_while|skip_while|filter_map)$")]
    its = [b for g in bodies for b in g.calls_to(r"Iterator::for_each$|Iterator::next$")]
    over = any(backslice(g, b.term.args[0], "dep").has_field("shards") for g in bodies for b in g.calls_to(r"Iterator::(for_each|map)$|IntoIterator::into_iter$|slice::<impl \[T\]>::iter$"))
    r.require(bool(sc) and not filt and bool(its) and over, ic, "RawCacheInner::clear clears every shard", "iterates self.shards without a filtering adaptor; each shard's clear() runs unconditionally",
              "RawCacheInner::clear does not clear every shard", ln=ic.lo)


def run(chk, F):
    chk.run_rule("C13.clear-chain", "clear() and the cache's drop reach RawCacheShard::clear of every shard", 3, clear_chain, F)
    chk.run_rule("C13.drain-sites", "every body that fills a garbage list notifies the listener per element and offers the list to the pipe", 8, drain_sites, F)
    chk.run_rule("C13.pipe-callers", "Pipe::send only from insert_inner / evict_all / resize / last drop of a disk-only entry; Pipe::flush only from RawCache::flush", 5, pipe_callers, F)
    chk.run_rule("C13.evict-only", "piping is control-dependent on event == Evict; flush pipes evict() garbage only, which is tagged Evict", 5, evict_only, F)
    chk.run_rule("C13.events", "Replace / Remove / Clear / Evict constants per leave path; drain sites forward the recorded event", 8, events, F)
    chk.run_rule("C13.no-silent-drop", "a record taken out of the index is queued with an event or returned to the caller", 5, no_silent_drop, F)
    chk.run_rule("C13.last-handle", "the last-drop hand-off of a disk-only entry is decided by the value the atomic decrement returned (exactly one dropper sees zero)", 2, C18.drop_last_handle, F)
    chk.run_rule("C13.siblings", "the garbage-draining sites agree and run outside the shard lock", 6, siblings, F)
    from rules import mustcall
    mustcall.run_for(chk, F, "C13")
