"""C08 — every storable key/value round-trips through the disk format bit-exactly (DESIGN.md §4 C08)."""
import re

from sa import mir, tables, affine
from sa.mir import backslice, AnchorMissing

TITLE = ("C08: encode/decode symmetry of every built-in Code impl, compression arms, no lost error in the serializer, the length-tracking writer forwards "
         "like-for-like, whole-entry rejection in Buffer::push, header lengths/checksum range, size-limit error mapping.")
NOT_DECIDED = [
    "correctness of the zstd / lz4 codecs themselves and of bincode under the `serde` feature",
    "equality of decoded and original values over all inputs (only: the two sides use the same widths, endianness, order and exact-length primitives)",
]

CODE = "foyer_common::code::Code"
S = "foyer_storage::serde"
BUF = "foyer_storage::engine::block::buffer"


def _code_impls(F):
    out = {}
    for f in F.all_fns("P"):
        if f.crate.name == "foyer_common" and f.impl_trait == CODE and f.kind == "assoc_fn":
            out.setdefault(f.self_ty, {})[f.id.rsplit("::", 1)[-1]] = f
    return out


def _propagated(f, call):
    """the Result of `call` reaches a `?` (Try::branch) or the function's return value"""
    for b in f.calls_to(r"ops::Try::branch$"):
        if any(bb == call.idx for bb, _ in backslice(f, b.term.args[0], "prov", extra_transparent=[r"Result::<T, E>::map_err$"]).calls):
            return True
    ret = mir.Operand({"c": {"l": 0, "p": []}})
    return any(bb == call.idx for bb, _ in backslice(f, ret, "prov", extra_transparent=[r"Result::<T, E>::map_err$"]).calls)


def code_symmetry(r, F):
    impls = _code_impls(F)
    nums = [t for t in impls if re.match(r"^[uif](8|16|32|64|128|size)$", t)]
    if F.config == "serde":
        # the blanket impl replaces the hand-written ones
        blanket = [t for t in impls]
        r.require(bool(blanket), None, "serde blanket impl present", "Code is implemented through bincode", "no Code impl found under the serde feature")
        for t, m in impls.items():
            e, d = m.get("encode"), m.get("decode")
            ok = e is not None and d is not None and bool(e.calls_to(r"bincode::serialize_into$")) and bool(d.calls_to(r"bincode::deserialize_from$"))
            r.require(ok, e, "bincode serialize_into / deserialize_from", "both directions use bincode's default configuration", "the serde blanket impl does not use bincode symmetrically", ln=e.lo if e else None)
        return
    if len(nums) < 14:
        r.fail(None, "numeric impls", "only %d numeric Code impls found (14 confirmed)" % len(nums))
    for t in sorted(nums):
        e, d = impls[t]["encode"], impls[t]["decode"]
        enc = [b.term.callee.rsplit("::", 1)[-1] for b in e.calls_to(r"::to_(le|be|ne)_bytes$")]
        dec = [b.term.callee.rsplit("::", 1)[-1] for b in d.calls_to(r"::from_(le|be|ne)_bytes$")]
        wa = e.calls_to(r"io::Write::write_all$")
        re_ = d.calls_to(r"io::Read::read_exact$")
        ok = len(enc) == 1 and len(dec) == 1 and enc[0][3:5] == dec[0][5:7] and len(wa) == 1 and len(re_) == 1
        # width: the decode buffer is [u8; size_of::<T>()]
        bufty = [d.local_ty(l) for l in range(d.nlocals) if re.match(r"^\[u8; \d+\]$", d.local_ty(l))]
        width = {"u8": 1, "i8": 1, "u16": 2, "i16": 2, "u32": 4, "i32": 4, "f32": 4, "u64": 8, "i64": 8, "f64": 8, "usize": 8, "isize": 8, "u128": 16, "i128": 16}[t]
        okw = bool(bufty) and all(x == "[u8; %d]" % width for x in bufty)
        r.require(ok and okw, e, "%s: %s/%s, %d bytes, write_all/read_exact" % (t, enc[0] if enc else "?", dec[0] if dec else "?", width), "same endianness and width in both directions, exact-length primitives",
                  "Code for %s is not symmetric: encode %s, decode %s, buffer %s" % (t, enc, dec, bufty), ln=e.lo)
        # errors converted with io_error and propagated
        for f in (e, d):
            conv = f.calls_to(r"Result::<T, E>::map_err$")
            r.require(bool(conv) and any(a.const is not None and (a.const.get("fn") or "").endswith("Error::io_error") for c in conv for a in c.term.args), f,
                      "%s::%s maps io errors with Error::io_error" % (t, f.id.rsplit("::", 1)[-1]), "short writes / reads become typed errors", "an io error is not converted with Error::io_error", ln=f.lo)
    # bool: {0,1} table
    b = impls.get("bool")
    if not b:
        raise AnchorMissing("Code for bool not found")
    d = b["decode"]
    okb = False
    for sw in mir.find_switches(d):
        vals = sorted(v for v, _ in sw.term.j["ts"])
        if vals == [0, 1]:
            res = {}
            for v, t in sw.term.j["ts"]:
                reach = d.reachable([t], avoid=[sw.idx])
                cs = {s.rv.ops[0].const_val() for bb in reach for s in d.blocks[bb].stmts if s.k == "assign" and s.rv.k == "agg" and s.rv.j.get("variant") == "Ok" and s.rv.ops and s.rv.ops[0].is_const()}
                res[v] = cs
            oth = d.reachable([sw.term.j["else"]], avoid=[sw.idx])
            errs = [s for bb in oth for s in d.blocks[bb].stmts if s.k == "assign" and s.rv.k == "agg" and s.rv.j.get("variant") in ("Err", "Parse")]
            okb = res.get(0) == {0} and res.get(1) == {1} and bool(errs)
    r.require(okb, d, "bool decode table {0->false, 1->true, else Err}", "exactly the two encodings are accepted", "bool::decode does not map 0/1 to false/true and reject other bytes", ln=d.lo)
    # ... of the byte that was READ: one read_exact into the tested buffer, before the test, its error propagated
    rex = d.calls_to(r"io::Read::read_exact$")
    sws = [sw for sw in mir.find_switches(d) if sorted(v for v, _ in sw.term.j["ts"]) == [0, 1]]
    okr = len(rex) == 1 and bool(sws)
    if okr:
        buf = {l for l in backslice(d, rex[0].term.args[1], "prov").locals if re.match(r"^\[u8; 1\]$", d.local_ty(l) or "")}
        okr = bool(buf) and any(d.dominates(rex[0].idx, sw.idx) and (backslice(d, sw.term.discr, "prov").locals & buf) for sw in sws) and _propagated(d, rex[0])
    r.require(okr, d, "bool decode reads the tested byte", "read_exact into the 1-byte buffer dominates the {0,1} test; its error is propagated",
              "bool::decode does not read the byte it tests (or drops the read error): every stored bool decodes as the buffer's initial value", ln=d.lo)
    # length-prefixed: Vec<u8>, String, Bytes: usize length first, then the bytes; decode reads the same order with read_exact
    for t in ("std::vec::Vec<u8>", "std::string::String", "bytes::Bytes"):
        m = impls.get(t)
        if not m:
            r.fail(None, "Code for " + t, "impl not found")
            continue
        e, d = m["encode"], m["decode"]
        lenenc = e.calls_to(r"code::Code::encode$")
        wa = e.calls_to(r"io::Write::write_all$")
        lendec = d.calls_to(r"code::Code::decode$")
        rex = d.calls_to(r"io::Read::read_exact$")
        ok = len(lenenc) == 1 and len(wa) == 1 and e.dominates(lenenc[0].idx, wa[0].idx) and len(lendec) == 1 and len(rex) == 1 and d.dominates(lendec[0].idx, rex[0].idx)
        ok = ok and e.callee_generics(lenenc[0].term)[:1] == ["usize"] and d.callee_generics(lendec[0].term)[:1] == ["usize"]
        # the length written is len() of what is written; the decoded buffer length is the decoded prefix
        ok = ok and backslice(e, lenenc[0].term.args[0], "prov").has_call(r"::len$")
        r.require(ok, e, "%s: usize length prefix then bytes" % t.rsplit("::", 1)[-1], "length prefix type and order agree; exact-length read", "the length-prefixed encoding of %s is not symmetric" % t, ln=e.lo)
        # the buffer handed to read_exact has exactly the decoded length: it is sized (set_len / resize / vec![0; len]) from the prefix before the read,
        # and the read's error is propagated
        oks = False
        if len(lendec) == 1 and len(rex) == 1:
            sizing = [b for b in d.calls_to(r"Vec::<T, A>::(set_len|resize)$|vec::from_elem$")
                      if any(any(bb == lendec[0].idx for bb, _ in backslice(d, a, "prov").calls) for a in b.term.args[1:] if a.place is not None) or
                      (b.term.callee.endswith("from_elem") and any(any(bb == lendec[0].idx for bb, _ in backslice(d, a, "prov").calls) for a in b.term.args if a.place is not None))]
            vecs = {l for l in backslice(d, rex[0].term.args[1], "prov").locals if (d.local_ty(l) or "").startswith("std::vec::Vec<u8")}
            errs_d = [b.idx for b in d.calls_to(r"FromResidual")] + [b.idx for b in d.blocks if not b.cleanup for s_ in b.stmts if s_.k == "assign" and s_.rv.k == "agg" and s_.rv.j.get("variant") == "Err"]
            oks = any(d.dominates(b.idx, rex[0].idx) and (b.term.callee.endswith("from_elem") or (backslice(d, b.term.args[0], "prov").locals & vecs)) for b in sizing) and _propagated(d, rex[0]) \
                and d.must_pass(0, [rex[0].idx] + errs_d)
        r.require(oks, d, "%s: decode buffer sized from the prefix, read error propagated" % t.rsplit("::", 1)[-1], "set_len/resize(len) on the buffer dominates read_exact",
                  "the decode buffer of %s is not sized to the decoded length before read_exact (an empty buffer reads nothing: every value decodes as empty), or the read error is dropped" % t, ln=d.lo)
        for f, c in ((e, lenenc[0]), (d, lendec[0])):
            tr = tables.variant_switch_on(f, c.idx)
            prop = any(f.callee_generics(b.term) and b.idx for b in f.calls_to(r"ops::Try::branch$") if any(bb == c.idx for bb, _ in backslice(f, b.term.args[0], "prov").calls))
            r.require(prop, f, "%s::%s propagates the prefix error" % (t.rsplit("::", 1)[-1], f.id.rsplit("::", 1)[-1]), "`?` on the length prefix", "an error coding the length prefix is dropped", ln=c.term.ln)


def compression_arms(r, F):
    ser = F.method(S + "::EntrySerializer", "serialize_value")
    de = F.method(S + "::EntryDeserializer", "deserialize_value")
    fam = {"None": r"code::Code::(encode|decode)$", "Zstd": r"^zstd::", "Lz4": r"^lz4::"}
    for fn, what in ((ser, "encode"), (de, "decode")):
        sw = [x for x in tables.discr_switches(fn) if {"None", "Zstd", "Lz4"} <= set(x[2])]
        if not sw:
            raise AnchorMissing("%s: match on Compression not found" % fn.short)
        sb, pl, tm, other = sw[0]
        for v in ("None", "Zstd", "Lz4"):
            others = [tm[x] for x in tm if x != v]
            reach = fn.reachable([tm[v]], avoid=[sb.idx] + others)
            callees = {b.term.callee for b in fn.blocks if b.idx in reach and b.term.k == "call" and b.term.callee}
            uses = {k for k, rx in fam.items() if k != "None" and any(re.search(rx, c) for c in callees)}
            want = set() if v == "None" else {v}
            # the arm's encode / decode call (and, for zstd writing, the explicit finish) runs on every path of the arm; errors leave through `?`
            errs = [b.idx for b in fn.calls_to(r"FromResidual")] + [b.idx for b in fn.blocks if not b.cleanup for s_ in b.stmts if s_.k == "assign" and s_.rv.k == "agg" and s_.rv.j.get("variant") == "Err"]
            core = [b.idx for b in fn.blocks if b.idx in reach and b.term.k == "call" and b.term.callee and re.search(fam["None"], b.term.callee)]
            uncond = bool(core) and fn.must_pass(tm[v], core + errs)
            if v == "Zstd" and what == "encode":
                fin = [b.idx for b in fn.blocks if b.idx in reach and b.term.k == "call" and b.term.callee and re.search(r"zstd::.*::finish$", b.term.callee)]
                uncond = uncond and bool(fin) and fn.must_pass(tm[v], fin + errs)
            r.require(uncond, fn, "%s arm of %s is unconditional" % (v, fn.short.rsplit("::", 1)[-1]), "the arm always %ss the value" % what,
                      "the %s arm of %s %ss the value only on some paths (or does not finish the stream): an accepted entry is stored without its value bytes" % (v, fn.short.rsplit("::", 1)[-1], what), ln=sb.term.ln)
            r.require(uses == want and any(re.search(fam["None"], c) for c in callees), fn, "%s arm of %s" % (v, fn.short.rsplit("::", 1)[-1]),
                      "the %s arm %ss through %s" % (v, what, "the plain stream" if v == "None" else v.lower()),
                      "the %s arm of %s uses codec(s) %s: writer and reader disagree on the compression of this tag" % (v, fn.short.rsplit("::", 1)[-1], sorted(uses) or "none"), ln=sb.term.ln)


def no_lost_error(r, F):
    for name in ("serialize", "serialize_key", "serialize_value"):
        fn = F.method(S + "::EntrySerializer", name)
        n = 0
        for b in fn.calls():
            t = b.term
            dty = fn.local_ty(t.dest.local)
            if not dty.startswith("std::result::Result<"):
                continue
            if t.callee and re.search(r"Result::<T, E>::map_err$|ops::FromResidual", t.callee):
                continue
            n += 1
            # the result flows (through map_err) into Try::branch or the return value
            okp = False
            seen = {t.dest.local}
            for _ in range(4):
                for b2 in fn.calls():
                    if any(a.place is not None and a.place.local in seen for a in b2.term.args):
                        if b2.term.callee and re.search(r"ops::Try::branch$", b2.term.callee):
                            okp = True
                        elif b2.term.callee and re.search(r"map_err$", b2.term.callee):
                            seen.add(b2.term.dest.local)
                for bb in fn.blocks:
                    for s in bb.stmts:
                        if s.k == "assign" and s.rv.k == "use" and s.rv.ops[0].place is not None and s.rv.ops[0].place.local in seen:
                            seen.add(s.place.local)
            if 0 in seen:
                okp = True
            r.require(okp, fn, "Result of %s propagated" % t.callee.rsplit("::", 1)[-1], "`?` / returned", "the Result of `%s` is dropped in EntrySerializer::%s: a short write is reported as success" % (t.callee, name), ln=t.ln)
        r.require(not fn.calls_to(r"auto_finish$"), fn, "no auto_finish in " + name, "the zstd stream is finished explicitly so that its error is seen",
                  "a drop-finishing encoder adaptor (auto_finish) is used: the WriteZero error of the final flush is lost", ln=fn.lo)
    sv = F.method(S + "::EntrySerializer", "serialize_value")
    fin = sv.calls_to(r"zstd::.*::finish$")
    r.require(bool(fin), sv, "zstd encoder finished explicitly", "Encoder::finish is called and its result propagated", "the zstd encoder is never finished", ln=sv.lo)
    # lengths returned come from TrackedWriter::written
    for name in ("serialize_key", "serialize_value"):
        fn = F.method(S + "::EntrySerializer", name)
        oks = [s for b in fn.blocks if not b.cleanup for s in b.stmts if s.k == "assign" and s.place.local == 0 and s.rv.k == "agg" and s.rv.j.get("variant") == "Ok"]
        r.require(bool(oks) and all(backslice(fn, s.rv.ops[0], "prov").has_call(r"TrackedWriter::<W>::written$") for s in oks), fn, name + " returns TrackedWriter::written()",
                  "the recorded length is the number of bytes the writer accepted", "%s does not return the tracked number of written bytes" % name, ln=fn.lo)


def tracked_writer(r, F):
    """the length-tracking wrapper forwards each io::Write method to the same method of the inner writer and counts what was accepted"""
    TW = S + "::TrackedWriter"
    ms = {f.id.rsplit("::", 1)[-1]: f for f in F.all_fns("P") if (f.self_ty or "").startswith(TW) and (f.impl_trait or "").endswith("io::Write") and f.kind == "assoc_fn"}
    if not {"write", "write_all", "flush"} <= set(ms):
        raise AnchorMissing("impl Write for TrackedWriter: write / write_all / flush not found (%s)" % sorted(ms))
    for name, f in sorted(ms.items()):
        inner = [b for b in f.calls_to(r"io::Write::\w+$") if backslice(f, b.term.args[0], "prov").has_field("inner", TW)]
        names = sorted({b.term.callee.rsplit("::", 1)[-1] for b in inner})
        r.require(names == [name], f, "TrackedWriter::%s -> inner.%s" % (name, name), "forwards like-for-like",
                  "TrackedWriter::%s forwards to inner.%s: `write_all` semantics (error on a short write -> BufferSizeLimit) are lost, so an entry that does not fit "
                  "is accepted truncated" % (name, names), ln=f.lo)
        if name in ("write", "write_all", "write_vectored"):
            bodies = [f] + F.descendants(f)
            ups = [u for g in bodies for u in tables.field_updates(g, "written")] + \
                  [1 for g in bodies for b in g.blocks for s in b.stmts if s.k == "assign" and s.place.has_deref() and any("written" in n for n in s.place.fields())] + \
                  [1 for g in bodies for b in g.calls_to(r"ops::AddAssign::add_assign$") if any("written" in n for n in backslice(g, b.term.args[0], "prov").upvars) or
                   backslice(g, b.term.args[0], "prov").has_field("written")]
            r.require(bool(ups), f, "TrackedWriter::%s counts accepted bytes" % name, "written += accepted", "TrackedWriter::%s does not update the byte count" % name, ln=f.lo)
            # counted only on success: the update sits in the closure given to Result::inspect
            insp = f.calls_to(r"Result::<T, E>::inspect$")
            r.require(bool(insp), f, "TrackedWriter::%s counts on Ok only" % name, "the count is updated through Result::inspect", "the byte count is updated even when the inner write failed", ln=f.lo)


def reject_whole(r, F):
    fn = F.method(BUF + "::Buffer", "push")
    ser = fn.calls_to(r"serde::EntrySerializer::serialize$")
    if len(ser) != 1:
        raise AnchorMissing("Buffer::push: EntrySerializer::serialize not found")
    pushes = [b.idx for b in fn.calls_to(r"Vec::<T, A>::push$") if backslice(fn, b.term.args[0], "prov").has_field("entry_infos")]
    wr = tables.field_updates(fn, "written", BUF + "::Buffer")
    acts = pushes + [u["block"] for u in wr]
    ok_edge = None
    for (sb, pl, tm, other) in tables.variant_switch_on(fn, ser[0].idx):
        if "Ok" in tm:
            ok_edge = (sb.idx, tm["Ok"], tm.get("Err"))
    if ok_edge is None:
        raise AnchorMissing("Buffer::push: match on the serialize result not found")
    r.require(all(fn.edge_guards(ok_edge[0], ok_edge[1], a) for a in acts) and bool(pushes) and bool(wr), fn, "accept only after serialize Ok",
              "the entry is recorded and the write position advanced only over the Ok edge of serialize", "Buffer::push records an entry whose serialization failed", ln=ser[0].term.ln)
    err_reach = fn.reachable([ok_edge[2]], avoid=[ok_edge[0]]) if ok_edge[2] is not None else set()
    r.require(not (set(acts) & err_reach), fn, "serialize Err -> nothing recorded", "a failed serialization leaves entry_infos and written untouched", "after a failed serialization the buffer state is modified", ln=ser[0].term.ln)
    cm = tables.find_cmp(fn, lambda f, op: op.place is not None and backslice(f, op, "prov").has_call(r"bits::align_up$"), tables.role_field("max_entry_size"), "comparison aligned > max_entry_size")
    for c, flipped in cm:
        tab = tables.table(fn, c, flipped, acts)
        guarded = all(fn.edge_guards(c.sw.idx, c.target("eq", flipped), a) for a in acts)
        r.require(guarded and tab[2] == "no" and tab[0] in ("yes", "maybe") and tab[1] in ("yes", "maybe"), fn, "aligned > max_entry_size -> rejected whole",
                  "table (aligned<max, =, >) -> record: %s" % (tab,), "an entry larger than max_entry_size is recorded: %s" % (tab,), ln=c.ln)
    # the header space test: no room even for a header -> false before anything is written
    hdr = tables.find_cmp(fn, lambda f, op: op.place is not None and (backslice(f, op, "prov").has_call(r"len$") or True) and not op.is_const(), lambda f, op: op.place is not None and backslice(f, op, "prov").has_call(r"EntryHeader::serialized_len$") or (op.is_const() and op.const_val() == 36), "comparison of the remaining space with the header length")
    okh = any(tables.table(fn, c, fl, [ser[0].idx])[0] == "no" for c, fl in hdr)
    r.require(okh, fn, "no room for a header -> rejected", "serialization is not attempted without room for the header", "Buffer::push serializes into a buffer that cannot hold the entry header", ln=fn.lo)
    ps = F.method(BUF + "::Buffer", "push_slice")
    pushes2 = [b.idx for b in ps.calls_to(r"Vec::<T, A>::push$")] + [u["block"] for u in tables.field_updates(ps, "written", BUF + "::Buffer")]
    cp = [b.idx for b in ps.calls_to(r"copy_from_slice$")]
    cms = [c for c in tables.comparisons(ps) if c.op in ("Gt", "Ge", "Lt", "Le")]
    ok2 = len(cms) >= 2 and all(any(ps.edge_guards(c.sw.idx, c.false_target if c.op in ("Gt", "Ge") else c.true_target, a) for c in cms) for a in pushes2 + cp)
    r.require(ok2, ps, "push_slice: size tests guard copy and bookkeeping", "a slice that exceeds max_entry_size or the remaining space is rejected before anything is copied",
              "push_slice copies / records a slice without both size tests guarding it", ln=ps.lo)


def accepted_is_recorded(r, F):
    """Buffer::push / push_slice answer `true` only after recording the entry: every path that returns true passed entry_infos.push (an acknowledged entry that is
    not recorded is written to disk but never indexed)"""
    for name in ("push", "push_slice"):
        fn = F.method(BUF + "::Buffer", name)
        rec = [b.idx for b in fn.calls_to(r"Vec::<T, A>::push$") if any("BufferEntryInfo" in (fn.local_ty(a.place.local) or "") for a in b.term.args if a.place is not None)]
        false_ret = [b.idx for b in fn.blocks if not b.cleanup for s_ in b.stmts if s_.k == "assign" and s_.place.local == 0 and s_.place.is_local() and s_.rv.k == "use" and s_.rv.ops[0].is_const() and s_.rv.ops[0].const_val() == 0]
        true_ret = [b.idx for b in fn.blocks if not b.cleanup for s_ in b.stmts if s_.k == "assign" and s_.place.local == 0 and s_.place.is_local() and s_.rv.k == "use" and s_.rv.ops[0].is_const() and s_.rv.ops[0].const_val() == 1]
        ok = bool(rec) and bool(true_ret) and fn.must_pass(0, rec + false_ret)
        r.require(ok, fn, "%s: `true` only after recording the entry" % name, "every path returning true passes entry_infos.push", "Buffer::%s can answer `accepted` without recording the entry in entry_infos: "
                  "its bytes are flushed but the entry is never indexed, while the caller keeps / drops its write-queue reference as for a stored entry" % name, ln=fn.lo)


def header_lengths(r, F):
    fn = F.method(BUF + "::Buffer", "push")
    hs = [(b.idx, i, s) for b in fn.blocks if not b.cleanup for i, s in enumerate(b.stmts) if s.k == "assign" and s.rv.k == "agg" and (s.rv.j.get("adt") or "").endswith("serde::EntryHeader")]
    ser = fn.calls_to(r"serde::EntrySerializer::serialize$")
    ck = fn.calls_to(r"serde::Checksummer::checksum64$")
    if not hs or not ser or not ck:
        raise AnchorMissing("Buffer::push: EntryHeader / serialize / checksum64 not found")
    flds = dict(hs[0][2].rv.agg_fields())
    for fld in ("key_len", "value_len"):
        sl = backslice(fn, flds[fld], "prov")
        r.require(sl.has_field(fld, "KvInfo") and any(bb == ser[0].idx for bb, _ in sl.calls), fn, "header.%s = KvInfo.%s of this serialization" % (fld, fld),
                  "the recorded length is what the serializer reported", "header.%s is not the length reported by the serializer for this entry" % fld, ln=hs[0][2].ln)
    r.require(any(bb == ck[0].idx for bb, _ in backslice(fn, flds["checksum"], "prov").calls), fn, "header.checksum = checksum of the written payload", "computed over the bytes just written",
              "header.checksum is not the checksum computed in this push", ln=hs[0][2].ln)
    for fld, arg in (("hash", 4), ("sequence", 6), ("compression", 5)):
        r.require(arg in backslice(fn, flds[fld], "prov").args, fn, "header.%s = parameter" % fld, "forwarded from the caller", "header.%s is not the caller's %s" % (fld, fld), ln=hs[0][2].ln)
    # checksum range: [header_len .. header_len + key_len + value_len]
    rsl = backslice(fn, ck[0].term.args[0], "dep")
    r.require(rsl.has_field("key_len", "KvInfo") and rsl.has_field("value_len", "KvInfo") and rsl.has_call(r"EntryHeader::serialized_len$"), fn, "checksum over payload range",
              "the checksummed range starts after the header and spans key_len + value_len", "the checksum does not cover exactly the written value and key bytes", ln=ck[0].term.ln)
    # recorded len = header + key_len + value_len
    infos = [(b.idx, i, s) for b in fn.blocks if not b.cleanup for i, s in enumerate(b.stmts) if s.k == "assign" and s.rv.k == "agg" and s.rv.j.get("adt") == BUF + "::BufferEntryInfo"]
    form = affine.affine(fn, dict(infos[0][2].rv.agg_fields())["len"], depth=1) if infos else None
    ks = sorted(k for k in (form or {}) if k != "1")
    hl = {"_%d" % b.term.dest.local for b in fn.calls_to(r"EntryHeader::serialized_len$")}
    ks = [k for k in ks if k not in hl]
    has_hdr = (form or {}).get("1") == 36 or any(k in (form or {}) and form[k] == 1 for k in hl)
    r.require(form is not None and has_hdr and len(ks) == 2 and all(form[k] == 1 for k in ks) and any("key_len" in k for k in ks) and any("value_len" in k for k in ks), fn,
              "entry len = header + key_len + value_len", "affine form: %s" % affine.pretty(form), "the recorded entry length is `%s`" % affine.pretty(form), ln=infos[0][2].ln if infos else fn.lo)


def decode_bounds(r, F):
    """EntryDeserializer::deserialize rejects a buffer only when it is strictly shorter than key_len + value_len: an entry whose payload ends exactly at
    the end of the bytes that were read (no page padding) must decode. Decision table of the (buffer.len(), value_len + key_len) comparison."""
    fn = F.method("foyer_storage::serde::EntryDeserializer", "deserialize")
    dv = [b.idx for b in fn.calls_to(r"EntryDeserializer::deserialize_value$")]
    if not dv:
        raise AnchorMissing("EntryDeserializer::deserialize: deserialize_value call not found")
    lens = lambda f, op: op.place is not None and backslice(f, op, "dep").args == {1}
    need = lambda f, op: op.place is not None and {2, 3} <= set(backslice(f, op, "dep").args) and 1 not in backslice(f, op, "dep").args
    found = tables.find_cmp(fn, lens, need, "comparison of the buffer length with value_len + key_len")
    r.require(len(found) == 1, fn, "one bounds test", "a single length test precedes the slicing", "EntryDeserializer::deserialize has %d length tests" % len(found), ln=fn.lo)
    c, fl = found[0]
    t = tables.table(fn, c, fl, dv)
    r.require(t[0] == "no" and t[1] != "no" and t[2] != "no", fn, "decode iff len >= value_len + key_len", "(len<need, =, >) -> decoded: %s" % (t,),
              "EntryDeserializer::deserialize decodes on (len<need, len=need, len>need) = %s: a buffer that holds exactly the entry (payload ending on a page boundary) is rejected as OutOfRange "
              "— the caller treats that as corruption, drops the index entry and reports a miss — or a short buffer is sliced" % (t,), ln=c.ln if hasattr(c, "ln") else fn.lo)
    # the accepted edge must dominate every slicing of the buffer
    idx = [b.idx for b in fn.blocks if not b.cleanup and b.term.k == "call" and re.search(r"ops::Index(Mut)?.*::index(_mut)?$|SliceIndex.*::index$", b.term.callee or "")]
    acc = c.target("eq" if not fl else "eq")
    r.require(bool(idx) and all(fn.edge_guards(c.sw.idx, acc, i) for i in idx), fn, "bounds test guards every slice", "%d slicing site(s) behind the test" % len(idx),
              "a slice of the buffer is taken without the length test guarding it (a truncated read panics instead of reporting OutOfRange)", ln=fn.lo)


def size_limit(r, F):
    fn = F.fn("foyer_common::error::Error::io_error")
    ok = False
    for (sb, pl, tm, other) in tables.discr_switches(fn):
        if "WriteZero" in tm:
            reach = fn.reachable([tm["WriteZero"]], avoid=[sb.idx, other])
            vs = {s.rv.j.get("variant") for bb in reach for s in fn.blocks[bb].stmts if s.k == "assign" and s.rv.k == "agg" and (s.rv.j.get("adt") or "").endswith("error::ErrorKind")}
            oth = fn.reachable([other], avoid=[sb.idx, tm["WriteZero"]])
            vo = {s.rv.j.get("variant") for bb in oth for s in fn.blocks[bb].stmts if s.k == "assign" and s.rv.k == "agg" and (s.rv.j.get("adt") or "").endswith("error::ErrorKind")}
            ok = vs == {"BufferSizeLimit"} and "BufferSizeLimit" not in vo
    r.require(ok, fn, "WriteZero -> BufferSizeLimit", "a destination that is exhausted reports a size-limit error", "io::ErrorKind::WriteZero is not mapped to ErrorKind::BufferSizeLimit", ln=fn.lo)


def run(chk, F):
    if F.config == "serde":
        chk.run_rule("C08.code-symmetry-serde", "under the serde feature Code is the bincode blanket impl, used symmetrically", 2, code_symmetry, F)
    else:
        chk.run_rule("C08.code-symmetry", "every built-in Code impl encodes and decodes with the same endianness, width, order and exact-length primitives", 20, code_symmetry, F)
    chk.run_rule("C08.compression-arms", "serialize_value and deserialize_value use the same codec family per compression tag, unconditionally in each arm", 12, compression_arms, F)
    chk.run_rule("C08.no-lost-error", "every Result in the serializer is propagated; the zstd stream is finished explicitly; lengths come from the tracking writer", 8, no_lost_error, F)
    chk.run_rule("C08.tracked-writer", "the length-tracking writer forwards each Write method like-for-like and counts accepted bytes on success only", 6, tracked_writer, F)
    chk.run_rule("C08.reject-whole", "an entry is recorded only after a successful serialization and within max_entry_size; push_slice tests sizes before copying", 5, reject_whole, F)
    from rules import C09
    chk.run_rule("C08.size-limit-siblings", "push and push_slice agree on the max_entry_size comparison", 1, C09.size_limit_siblings, F)
    chk.run_rule("C08.accepted-is-recorded", "Buffer::push / push_slice return true only after recording the entry", 2, accepted_is_recorded, F)
    chk.run_rule("C08.header-lengths", "the header records the serializer's lengths, the payload checksum and the caller's hash/sequence/tag; entry len = header + key + value", 7, header_lengths, F)
    chk.run_rule("C08.decode-bounds", "deserialize rejects a buffer only when strictly shorter than the recorded lengths; the test guards every slice", 3, decode_bounds, F)
    chk.run_rule("C08.size-limit", "a WriteZero io error becomes ErrorKind::BufferSizeLimit", 1, size_limit, F)
    from rules import mustcall
    mustcall.run_for(chk, F, "C08")
