"""C02 — the in-memory cache is linearizable per key under concurrent use (DESIGN.md §4 C02)."""
import re

from sa import mir, tables, locks
from sa.mir import backslice, AnchorMissing
from rules import C18, C17

TITLE = ("C02: lock discipline and publication protocol — index/eviction mutations only under the shard write lock, read-lock paths are pure, "
         "reference counts taken inside the critical section, atomic orderings, flag writers, dispatcher agreement.")
NOT_DECIDED = [
    "linearizability itself (a property of histories): only the lock discipline it rests on is decided",
    "the window between dec_refs()==0 and taking the lock in RawCacheEntry::drop (release does not re-check refs under the lock) — schedule dependent",
    "memory-model reasoning beyond the listed orderings",
]

SHARD = "foyer_memory::raw::RawCacheShard"
MUT_CALLS = re.compile(r"^foyer_memory::indexer::Indexer::(insert|remove|drain)$|^foyer_memory::eviction::Eviction::(push|pop|remove|clear|update)$")
READ_CALLS = re.compile(r"^foyer_memory::indexer::Indexer::get$")


def _in_memory_cache_layer(f):
    """bodies of foyer_memory::raw (the code that owns the shard lock)"""
    return f.crate.name == "foyer_memory" and f.file.endswith("foyer-memory/src/raw.rs")


def under_lock(r, F):
    A = locks.analysis(F)
    n = 0
    for f in F.all_fns("P"):
        if not _in_memory_cache_layer(f):
            continue
        for b in f.calls():
            t = b.term
            if not t.callee:
                continue
            if MUT_CALLS.search(t.callee):
                # receiver must be the shard's indexer / eviction
                n += 1
                held = A.must_held_at(f.id, b.idx)
                r.require(("write", SHARD) in held, f, "%s under the shard write lock" % t.callee.rsplit("::", 2)[-2:][0] + "::" + t.callee.rsplit("::", 1)[-1],
                          "every call path holds the exclusive shard lock", "a mutation of the shard's index / eviction container (%s) is reachable without the "
                          "exclusive shard lock being held on every call path (must-held: %s)" % (t.callee, sorted(c for k, c in held if k != "any")), ln=t.ln)
            elif READ_CALLS.search(t.callee):
                n += 1
                held = A.must_held_at(f.id, b.idx)
                r.require(("any", SHARD) in held, f, "Indexer::get under a shard lock", "every call path holds the shard lock (read or write)",
                          "the shard index is read without the shard lock", ln=t.ln)
    if n < 10:
        r.fail(None, "sites", "only %d index/eviction call sites found in foyer-memory/src/raw.rs (10+ confirmed)" % n)
    # the boxed acquire/release operators: Mutable ones only under write, Immutable ones under read or write
    for which in ("acquire", "release"):
        for kind, need in (("mutable", ("write", SHARD)), ("immutable", ("any", SHARD))):
            fn = F.method(SHARD, "%s_%s" % (which, kind))
            must = A.must_ctx()[fn.id]
            r.require(need in must, fn, "%s_%s runs under %s shard lock" % (which, kind, "the write" if kind == "mutable" else "a"),
                      "all callers hold it", "%s_%s is reachable without %s" % (which, kind, need), ln=fn.lo)
    # no bypass of the lock API
    byp = 0
    for f in F.all_fns("P"):
        if not f.crate.name.startswith("foyer_memory"):
            continue
        for b in f.calls_to(r"lock_api::.*::(data_ptr|force_unlock\w*|make_\w*guard_unchecked|raw|get_mut|into_inner)$|RwLock::<R, T>::(data_ptr|force_unlock\w*|get_mut|into_inner)$"):
            byp += 1
            r.fail(f, "lock bypass:" + b.term.callee.rsplit("::", 1)[-1], "the shard's data is reached through `%s`, bypassing the guard discipline" % b.term.callee, ln=b.term.ln)
    r.ok("foyer_memory", "no lock-bypass API used", "no data_ptr / force_unlock / make_guard_unchecked / raw / get_mut / into_inner on a lock in foyer-memory")


def read_pure(r, F):
    """bodies that may run while only a READ guard of the shard is held must not mutate shared non-atomic state"""
    A = locks.analysis(F)
    must = A.must_ctx()
    n = 0
    for fid, f in sorted(A.fns.items()):
        pf = F.P.get(fid)
        if pf is None or pf.crate.name != "foyer_memory":
            continue
        ctx = A.ctx[fid]
        local_read = any(A.bodies[fid].cls(l) == ("read", SHARD) for l in A.bodies[fid].guards)
        if ("read", SHARD) not in ctx and not local_read:
            continue
        if ("write", SHARD) in must[fid]:
            continue  # only ever reached under the write lock
        n += 1
        bad = []
        for b in pf.blocks:
            if b.cleanup:
                continue
            for s in b.stmts:
                if s.k == "assign" and s.place.has_deref():
                    base_ty = pf.local_ty(s.place.local)
                    sl = backslice(pf, mir.Place({"l": s.place.local, "p": []}), "prov")
                    via_cell = sl.has_call(r"cell::UnsafeCell::<T>::get$") or sl.has_call(r"Record::<E>::state$") or base_ty.startswith("*mut")
                    via_self = any(1 <= l <= pf.argc and pf.local_ty(l).startswith("&") and not pf.local_ty(l).startswith("&mut") for l in sl.args) and False
                    if via_cell:
                        bad.append(("plain store through UnsafeCell / raw pointer", s.ln))
            t = b.term
            if t.k == "call" and t.callee:
                if "intrusive_collections" in t.callee and re.search(r"::(push_\w+|pop_\w+|remove\w*|insert\w*|clear|cursor_mut\w*|front_mut|back_mut|splice\w*|take)$", t.callee):
                    bad.append(("intrusive list mutation " + t.callee.rsplit("::", 1)[-1], t.ln))
                if MUT_CALLS.search(t.callee):
                    bad.append(("index/eviction mutation " + t.callee.rsplit("::", 1)[-1], t.ln))
        # get_immutable etc. legitimately touch atomics only
        r.require(not bad, pf, "pure under the read lock", "no plain store through UnsafeCell, no list operation, no container mutation (atomics only)",
                  "this body can run while only the shared (read) shard lock is held but performs %s at line %s: concurrent readers race on it" % (
                      bad[0][0] if bad else "", bad[0][1] if bad else ""), ln=bad[0][1] if bad else pf.lo)
    if n < 8:
        r.fail(None, "sites", "only %d bodies found that may run under the read lock (8+ confirmed)" % n)


def refs_in_cs(r, F):
    A = locks.analysis(F)
    n = 0
    for f in F.all_fns("P"):
        if f.crate.name != "foyer_memory":
            continue
        for b in f.calls_to(C18.INC):
            n += 1
            if f.impl_trait and f.impl_trait.endswith("Clone") and (f.self_ty or "").startswith(C18.ENTRY):
                r.ok(f, "inc_refs in Clone", "the cloning caller already owns a counted reference", ln=b.term.ln)
                continue
            held = A.must_held_at(f.id, b.idx)
            r.require(("any", SHARD) in held, f, "inc_refs inside the shard critical section",
                      "the reference is counted while the shard lock that published / looked up the record is held",
                      "Record::inc_refs is called outside the shard critical section: between publication and the increment a concurrent drop of another "
                      "handle can see refs == 0 and release the record's eviction state while this caller is about to hand out a handle", ln=b.term.ln)
    if n < 4:
        r.fail(None, "sites", "only %d inc_refs sites found (4 confirmed)" % n)


def _ordering_of(fn, op):
    sl = backslice(fn, op, "prov")
    vs = {s.rv.j.get("variant") for _, s in sl.aggs if (s.rv.j.get("adt") or "").endswith("atomic::Ordering")}
    vs |= {v for (a, v) in tables.slice_variants(fn, sl) if str(a).endswith("atomic::Ordering")}
    return vs, sl.args


def orderings(r, F):
    REC = "foyer_memory::record::Record"
    rmw_ok = {"AcqRel", "SeqCst"}
    for name in ("inc_refs", "dec_refs"):
        fn = F.method(REC, name)
        cs = fn.calls_to(r"atomic::Atomic::<usize>::fetch_(add|sub)$")
        ok = len(cs) == 1 and backslice(fn, cs[0].term.args[0], "prov").has_field("refs")
        vs = _ordering_of(fn, cs[0].term.args[2])[0] if ok else set()
        r.require(ok and vs and vs <= rmw_ok, fn, name + " ordering", "read-modify-write on refs with %s" % sorted(vs),
                  "the reference count is updated with a weaker ordering than AcqRel (%s): the last-drop release can be reordered before another thread's use" % sorted(vs), ln=fn.lo)
    fn = F.method(REC, "refs")
    cs = fn.calls_to(r"atomic::Atomic::<usize>::load$")
    vs = _ordering_of(fn, cs[0].term.args[1])[0] if cs else set()
    r.require(bool(cs) and vs and vs <= {"Acquire", "SeqCst"}, fn, "refs() ordering", "load with %s" % sorted(vs), "refs() loads with %s" % sorted(vs), ln=fn.lo)
    for name, need, callee in (("set_in_indexer", {"Release", "AcqRel", "SeqCst"}, "set_flags"), ("set_in_eviction", {"Release", "AcqRel", "SeqCst"}, "set_flags"),
                               ("is_in_indexer", {"Acquire", "SeqCst"}, "get_flags"), ("is_in_eviction", {"Acquire", "SeqCst"}, "get_flags")):
        fn = F.method(REC, name)
        cs = fn.calls_to(r"Record::<E>::%s$" % callee)
        vs = _ordering_of(fn, cs[0].term.args[-1])[0] if cs else set()
        r.require(bool(cs) and vs and vs <= need, fn, name + " ordering", "%s with %s" % (callee, sorted(vs)), "%s uses ordering %s (needs one of %s)" % (name, sorted(vs), sorted(need)), ln=fn.lo)
    sf = F.method(REC, "set_flags")
    for b in sf.calls_to(r"atomic::Atomic::<u64>::fetch_(or|and)$"):
        vs, args = _ordering_of(sf, b.term.args[2])
        r.require(4 in args and not vs, sf, "set_flags passes its ordering", "the caller's ordering is used for the RMW", "set_flags ignores the requested ordering", ln=b.term.ln)
    gf = F.method(REC, "get_flags")
    for b in gf.calls_to(r"atomic::Atomic::<u64>::load$"):
        vs, args = _ordering_of(gf, b.term.args[1])
        r.require(3 in args and not vs, gf, "get_flags passes its ordering", "the caller's ordering is used for the load", "get_flags ignores the requested ordering", ln=b.term.ln)


def flag_pairing(r, F):
    C18.outdated(r, F)
    n = 0
    for f in F.all_fns("P"):
        if not f.crate.name.startswith("foyer"):
            continue
        for b in f.calls_to(r"Record::<E>::set_in_eviction$"):
            n += 1
            root = F.P.get(f.root, f)
            inside = (root.impl_trait or "").endswith("eviction::Eviction") or (root.in_trait or "").endswith("eviction::Eviction")
            r.require(inside, f, "set_in_eviction only in Eviction impls", "flag written by an eviction algorithm", "the in-eviction flag is written outside an Eviction impl", ln=b.term.ln)
    if n < 10:
        r.fail(None, "sites", "only %d set_in_eviction sites found (10+ confirmed)" % n)


def dispatch(r, F):
    """every dispatcher over the five algorithms calls the same method in all arms"""
    n = 0
    for f in F.all_fns("P"):
        if f.crate.name != "foyer_memory" or not f.file.endswith("cache.rs") or f.kind not in ("fn", "assoc_fn"):
            continue
        if f.impl_trait and not f.impl_trait.endswith("Future"):
            continue  # derived / forwarding trait impls (Clone, Debug, Deref, Serialize) are not dispatchers of cache operations
        if not re.match(r"^foyer_memory::cache::(Cache|CacheEntry|GetOrFetch)<", f.self_ty or ""):
            continue
        if f.id.rsplit("::", 1)[-1] in ("project", "project_ref", "project_replace"):
            continue  # pin-project generated projections
        for (sb, pl, tm, other) in tables.discr_switches(f):
            names = set(tm)
            if not {"Fifo", "S3Fifo", "Lru", "Lfu", "Sieve"} <= names:
                continue
            n += 1
            per = {}
            for v in ("Fifo", "S3Fifo", "Lru", "Lfu", "Sieve"):
                reach = f.reachable([tm[v]], avoid=[sb.idx] + [tm[x] for x in tm if x != v and tm[x] != tm[v]])
                calls = []
                for bi in sorted(reach):
                    t = f.blocks[bi].term
                    if t.k == "call" and t.callee and re.search(r"^foyer_memory::raw::|poll$|Future::poll$", t.callee):
                        # only calls whose receiver comes from this variant's payload
                        calls.append(mir.short_path(t.callee))
                        break
                per[v] = calls[0] if calls else None
            vals = set(per.values())
            r.require(len(vals) == 1 and None not in vals, f, "dispatch@%s" % (sorted(vals)[0].rsplit("::", 1)[-1] if len(vals) == 1 and None not in vals else "?"),
                      "all five algorithm arms forward to %s" % sorted(vals), "the arms of this dispatcher do not all forward to the same method: %s" % per, ln=sb.term.ln)
    if n < 20:
        r.fail(None, "sites", "only %d five-way dispatchers found in foyer-memory/src/cache.rs (20+ confirmed)" % n)


def run(chk, F):
    chk.run_rule("C02.under-lock", "index / eviction mutations run only under the shard write lock; reads under a shard lock; no lock bypass", 14, under_lock, F)
    chk.run_rule("C02.read-pure", "bodies that can run under the shared shard lock perform no plain stores through UnsafeCell and no list operations", 8, read_pure, F)
    chk.run_rule("C02.refs-in-cs", "reference counts are incremented inside the shard critical section (or by a caller that already owns one)", 4, refs_in_cs, F)
    chk.run_rule("C02.orderings", "refs RMW >= AcqRel, flag RMW >= Release, loads >= Acquire; helpers pass the requested ordering through", 9, orderings, F)
    chk.run_rule("C02.flag-pairing", "in-indexer flag written only by the Sentry wrapper (true on insert, false on leave); in-eviction flag only by Eviction impls", 16, flag_pairing, F)
    chk.run_rule("C02.probe-eq", "every hash-table probe (memory index, in-flight table) answers `found` only on key equality", 9, C17.probe_eq, F)
    chk.run_rule("C02.handle-immutable", "no code path assigns to or mutably borrows Record.data", 4, C18.immutable, F)
    chk.run_rule("C02.dispatch", "every five-way dispatcher forwards to the same method in all arms", 20, dispatch, F)


def thorough(chk):
    C18.thorough(chk)
