"""C15 — a graceful close persists what memory held (DESIGN.md §4 C15)."""
import re

from sa import mir, tables, asyncs
from sa.mir import backslice, AnchorMissing
from rules import C12

TITLE = "C15: close order and idempotence, flush hands every evicted record to the pipe (minus in-memory-only), engine refuses work after close, Drop closes too."
NOT_DECIDED = [
    "that the flushed set fits the configured flush buffer and survives the disk tier's own capacity eviction",
    "contents after reopen (C01/C04/C07 cover the mechanisms)",
]

HC = "foyer::hybrid::cache"


def close_order(r, F):
    fn = F.fn(HC + "::Inner::close_inner::{closure#0}")
    fo = fn.calls_to(r"atomic::Atomic::<bool>::fetch_or$")
    fl = fn.calls_to(r"foyer_memory::Cache::<K, V, S, P>::flush$")
    cl = fn.calls_to(r"Store::<K, V, S, P>::close$")
    if len(fo) != 1 or len(fl) != 1 or len(cl) != 1:
        raise AnchorMissing("close_inner: closed.fetch_or / memory.flush / storage.close not found exactly once")
    # (a) idempotence: fetch_or(true) first; already-closed edge returns Ok touching nothing
    r.require(fo[0].term.args[1].const_val() == 1 and all(fn.dominates(fo[0].idx, x.idx) for x in fl + cl) and bool(backslice(fn, fo[0].term.args[0], "prov").upvars & mir.upvars_from_param(F, fn, 1)), fn,
              "closed.fetch_or(true) first", "the closed flag is set before anything else", "close does not first set the closed flag", ln=fo[0].term.ln)
    ok = False
    for (swb, neg) in tables._bool_switches_on(fn, fo[0].idx):
        tt, ft = tables.bool_switch_targets(swb)
        if neg:
            tt, ft = ft, tt
        reach = fn.reachable([tt], avoid=[swb.idx])
        ok = not ({fl[0].idx, cl[0].idx} & reach) and all(fn.edge_guards(swb.idx, ft, x.idx) for x in fl + cl)
    r.require(ok, fn, "already closed -> return without flushing or closing", "a second close() is a no-op", "a second close() flushes / closes again", ln=fo[0].term.ln)
    # (b) flush is control-dependent on flush_on_close and precedes storage.close on that path; storage.close on every path
    guards = []
    for sw in mir.find_switches(fn):
        d = sw.term.discr
        if d.place is None:
            continue
        sl = backslice(fn, d, "prov")
        if sl.upvars & mir.upvars_from_param(F, fn, 4):
            tt, ft = tables.bool_switch_targets(sw)
            guards.append((sw.idx, tt, ft))
    # "iff": guarded by the flag, never on its false edge, and on its true edge ALWAYS (no second condition)
    okf = any(fn.edge_guards(sw, tt, fl[0].idx) and fl[0].idx not in fn.reachable([ft], avoid=[sw]) and fn.must_pass(tt, [fl[0].idx]) for (sw, tt, ft) in guards)
    r.require(okf, fn, "flush iff flush_on_close", "memory is flushed exactly when flush_on_close is set", "Cache::flush is not control-dependent on flush_on_close (or runs when it is off)", ln=fl[0].term.ln)
    # the flush future is awaited to completion before the close future is first polled (async fns do nothing until polled):
    # the poll of storage.close() is reachable from the flush only over the Ready edge of the flush's poll
    polls = [b for b in fn.calls_to(r"Future::poll$") if any(bb == fl[0].idx for bb, _ in backslice(fn, b.term.args[0], "prov").calls)]
    cpolls = [b.idx for b in fn.calls_to(r"Future::poll$") if any(bb == cl[0].idx for bb, _ in backslice(fn, b.term.args[0], "prov").calls)]
    okw = False
    for p in polls:
        for (sb, pl, tm, other) in tables.variant_switch_on(fn, p.idx):
            if "Ready" in tm and "Pending" in tm:
                okw = bool(cpolls) and not (set(cpolls) & fn.reachable([fl[0].idx], avoid_edges=[(sb.idx, tm["Ready"])]))
    r.require(okw, fn, "flush().await before storage.close().await", "the close future is polled only after the flush future completed",
              "storage.close() can run before memory.flush() completed: entries evicted by the flush are refused by the closed engine", ln=cl[0].term.ln)
    tr = asyncs.awaited_try(F, fn, cl[0].idx)
    r.require(bool(tr), fn, "storage.close().await?", "the result of closing the store is propagated", "the result of Store::close is dropped", ln=cl[0].term.ln)
    r.require(bool(cpolls) and fn.must_pass(0, cpolls, avoid_edges=[]) or all(fn.must_pass(fl[0].idx, cpolls) for _ in [0]) and _closed_edge_ok(fn, fo[0], cpolls), fn, "storage.close awaited on every first close", "after flushing, the store is always closed", "a path flushes memory but never closes the store", ln=fl[0].term.ln)


def _closed_edge_ok(fn, fo, cpolls):
    """every path from the not-yet-closed edge to return polls the close future"""
    for (swb, neg) in tables._bool_switches_on(fn, fo.idx):
        tt, ft = tables.bool_switch_targets(swb)
        if neg:
            tt, ft = ft, tt
        return fn.must_pass(ft, cpolls)
    return False


def flush_all(r, F):
    fn = F.fn("foyer_memory::raw::RawCache::flush::{closure#0}")
    evs = fn.calls_to(r"RawCacheShard::<E, S, I>::evict$")
    fls = fn.calls_to(r"pipe::Pipe::flush$")
    if len(evs) != 1 or len(fls) != 1:
        raise AnchorMissing("RawCache::flush: evict / Pipe::flush not found exactly once")
    e = evs[0]
    # evict(0, ..) inside a loop over all shards
    nxt = [b for b in fn.calls_to(r"Iterator::next$") if e.idx in fn.reachable([b.idx]) and b.idx in fn.reachable([e.idx])]
    shards = any(backslice(fn, n.term.args[0], "dep").has_field("shards") for n in nxt)
    r.require(e.term.args[1].const_val() == 0 and shards, fn, "evict(0) for every shard", "every shard is evicted down to zero", "RawCache::flush does not evict every shard to zero", ln=e.term.ln)
    # all garbages reach Pipe::flush when piped
    src = backslice(fn, fls[0].term.args[1], "dep")
    r.require(any(bb == e.idx for bb, _ in src.calls), fn, "evicted records -> Pipe::flush", "the evicted records are what the pipe receives", "the pipe does not receive the evicted records", ln=fls[0].term.ln)
    en = fn.calls_to(r"pipe::Pipe::is_enabled$")
    r.require(bool(en) and tables.bool_call_guards(fn, r"pipe::Pipe::is_enabled$", fls[0].idx, want=True), fn, "Pipe::flush iff piped", "the batch is handed over when a pipe is installed",
              "Pipe::flush is not guarded by is_enabled()", ln=fls[0].term.ln)
    # HybridCachePipe::flush: wait() first, then every piece is enqueued unless InMem
    hp = F.fn("<foyer::hybrid::cache::HybridCachePipe<K, V, S> as foyer_memory::Pipe>::flush::{closure#0}")
    w = hp.calls_to(r"Store::<K, V, S, P>::wait$")
    enq = hp.calls_to(C12.ENQ)
    if not w or not enq:
        raise AnchorMissing("HybridCachePipe::flush: Store::wait / Store::enqueue not found")
    r.require(all(hp.dominates(w[0].idx, q.idx) for q in enq), hp, "store.wait() before enqueueing", "pending writes are drained first", "the close-time flush does not first wait for pending writes", ln=w[0].term.ln)
    nx = [b for b in hp.calls_to(r"Iterator::next$") if backslice(hp, b.term.args[0], "dep").upvars & mir.upvars_from_param(F, hp, 2)]
    ok = False
    for n in nx:
        for (sb, pl, tm, other) in tables.variant_switch_on(hp, n.idx):
            if "Some" in tm:
                atoms = tables.variant_atoms(hp, C12.LOCATION, "InMem")
                ne = [e2 for a in atoms for e2 in a.eq_edges]
                # every path from a dequeued piece back to the loop head passes enqueue, except over the InMem edge
                ok = hp.must_pass(tm["Some"], [q.idx for q in enq], [n.idx] + hp.returns(), avoid_edges=ne)
    r.require(ok, hp, "every piece is enqueued unless InMem", "each flushed piece reaches Store::enqueue (only the in-memory-only advice skips it)",
              "some flushed pieces are dropped without being enqueued", ln=hp.lo)


def engine_refuses(r, F):
    BE = "foyer_storage::engine::block::engine::BlockEngine"
    for name, sinks in (("enqueue", [r"Flusher::<K, V, P>::submit$", r"atomic::Atomic::<u64>::fetch_add$"]), ("delete", [r"Flusher::<K, V, P>::submit$", r"indexer::Indexer::insert_tombstone$"])):
        fn = F.method(BE, name)
        loads = [b for b in fn.calls_to(r"atomic::Atomic::<bool>::load$") if backslice(fn, b.term.args[0], "prov").has_field("active")]
        if not loads:
            r.fail(fn, "active.load", "BlockEngine::%s does not test the `active` flag: work is accepted after close" % name, ln=fn.lo)
            continue
        l = loads[0]
        blocks = [b.idx for pat in sinks for b in fn.calls_to(pat)]
        ok = bool(blocks)
        for (swb, neg) in tables._bool_switches_on(fn, l.idx):
            tt, ft = tables.bool_switch_targets(swb)
            if neg:
                tt, ft = ft, tt
            ok = ok and all(fn.edge_guards(swb.idx, tt, b) for b in blocks)
        r.require(ok and all(fn.dominates(l.idx, b) for b in blocks), fn, "%s: active test first" % name, "nothing is allocated or submitted once the engine is closed",
                  "BlockEngine::%s allocates a sequence / submits work without the `active` test guarding it" % name, ln=l.term.ln)
    cl = [f for f in F.descendants(F.method(BE, "close")) if f.kind == "coroutine"]
    if not cl:
        raise AnchorMissing("BlockEngine::close async body not found")
    c = cl[0]
    st = [b for b in c.calls_to(r"atomic::Atomic::<bool>::store$") if backslice(c, b.term.args[0], "prov").has_field("active")]
    w = c.calls_to(r"BlockEngine::<K, V, P>::wait$")
    aw = [b.idx for b in c.calls_to(r"future::IntoFuture::into_future$") if w and any(bb == w[0].idx for bb, _ in backslice(c, b.term.args[0], "prov").calls)]
    r.require(bool(aw) and c.must_pass(0, aw) and c.must_pass(0, [x.idx for x in st]), c, "close: deactivate and wait on every path", "active.store(false) and wait().await are unconditional",
              "BlockEngine::close can return without deactivating the engine / awaiting wait(): close() then acknowledges before queued entries are written", ln=c.lo)
    r.require(len(st) == 1 and st[0].term.args[1].const_val() == 0 and bool(w) and c.dominates(st[0].idx, w[0].idx), c, "close: active=false then wait",
              "the engine stops accepting work, then waits for flushers and reclaimers", "BlockEngine::close does not deactivate the engine before waiting", ln=c.lo)


def queue_gate(r, F):
    """BlockEngine::enqueue silently drops entries while the engine-wide submit_queue_size counter exceeds its threshold — also the entries handed over by the
    flush that close() runs.  The counter must therefore be released for EVERY received cache entry (written or rejected by the buffer), by the amount that
    was added for it: paired accounting over all sites that touch the counter."""
    sites = []
    for f in F.all_fns("P"):
        if f.crate.name != "foyer_storage" or "::tests::" in f.short or "test_utils" in f.file:
            continue
        for b in f.calls_to(r"atomic::Atomic::<\w+>::(fetch_add|fetch_sub|store|swap|fetch_update|fetch_max|fetch_min|compare_exchange\w*)$"):
            sl = backslice(f, b.term.args[0], "prov")
            if sl.has_field("submit_queue_size") or any("submit_queue_size" in u for u in sl.upvars):
                sites.append((f, b))
    kinds = sorted((f.short.rsplit("::", 2)[-2] + "::" + f.short.rsplit("::", 1)[-1], b.term.callee.rsplit("::", 1)[-1]) for f, b in sites)
    r.require(len(sites) == 2 and sorted(k for _, k in kinds) == ["fetch_add", "fetch_sub"], None, "counter sites", "the counter is written at exactly one add site and one sub site: %s" % kinds,
              "submit_queue_size is written at %s — expected exactly one fetch_add (submission) and one fetch_sub (reception)" % kinds)
    for f, b in sites:
        op = b.term.callee.rsplit("::", 1)[-1]
        amt = backslice(f, b.term.args[1], "prov")
        r.require(any(n == "estimated_size" and of.endswith("Submission::CacheEntry") for of, n in amt.fields), f, "%s amount = the submission's estimated_size" % op,
                  "the same quantity is added and subtracted", "submit_queue_size.%s does not use the submission's own estimated_size: the counter drifts" % op, ln=b.term.ln)
        ok = False
        for (sb, pl, tm, other) in tables.discr_switches(f):
            if "CacheEntry" in tm:
                ok = f.edge_guards(sb.idx, tm["CacheEntry"], b.idx) and f.must_pass(tm["CacheEntry"], [b.idx])
        r.require(ok, f, "%s on every path of the CacheEntry arm" % op, "each cache-entry submission is counted once when submitted and released once when received, whether or not the buffer accepted it",
                  "submit_queue_size.%s is not executed on every path of the CacheEntry arm of %s: an entry the buffer rejects (too large, buffer full) is never released from the counter; once the leaked "
                  "total exceeds submit_queue_size_threshold BlockEngine::enqueue drops every later entry, including those flushed by close()" % (op, f.short.rsplit("::", 1)[-1]), ln=b.term.ln)
    # the gate itself: drop only while the counter EXCEEDS the threshold
    enq = F.method("foyer_storage::engine::block::engine::BlockEngine", "enqueue")
    sub = [b.idx for b in enq.calls_to(r"Flusher::<K, V, P>::submit$")]
    def queued(f, op):
        if op.place is None:
            return False
        return any(t.callee and t.callee.endswith("::load") and backslice(f, t.args[0], "prov").has_field("submit_queue_size") for bb, t in backslice(f, op, "prov").calls)
    found = tables.find_cmp(enq, queued, tables.role_field("submit_queue_size_threshold"),
                            "comparison of submit_queue_size with its threshold")
    for c, fl in found:
        tab = tables.table(enq, c, fl, sub)
        r.require(tab[0] != "no" and tab[1] != "no" and tab[2] == "no", enq, "gate: queued ? threshold -> submit", "table (queued<thr, =, >) -> submitted: %s" % (tab,),
                  "BlockEngine::enqueue must drop an entry only while the queued size exceeds the threshold; got (queued<thr,=,>) -> submitted %s" % (tab,), ln=c.ln)


def engine_waits(r, F):
    """`close` (and the hybrid flush before it) rely on BlockEngine::wait: its future awaits a Wait round-trip through EVERY flusher and then the reclaimers;
    a flusher answers the Wait only from the completion of the io task that carried it"""
    BE = "foyer_storage::engine::block::engine::BlockEngine"
    w = F.method(BE, "wait")
    cs = [g for g in F.descendants(w) if g.kind == "coroutine"]
    if len(cs) != 1:
        raise AnchorMissing("BlockEngine::wait: async body not found")
    c = cs[0]

    def awaited(call):
        """blocks of IntoFuture::into_future applied to the result of `call` and followed by a poll of it"""
        out = []
        for b in c.calls_to(r"future::IntoFuture::into_future$"):
            if any(bb == call.idx for bb, _ in backslice(c, b.term.args[0], "prov").calls) and any(p.idx in c.reachable([b.idx]) for p in c.calls_to(r"Future::poll$")):
                out.append(b.idx)
        return out
    ja = c.calls_to(r"future::join_all$")
    okj = False
    if len(ja) == 1:
        sl = backslice(c, ja[0].term.args[0], "dep")
        mp = [t for bb, t in sl.calls if t.callee and t.callee.endswith("Iterator::map")]
        over_flushers = sl.has_field("flushers") or any("flushers" in u for u in sl.upvars)
        cl = [g for g in F.descendants(c) if g.kind == "closure" and g.calls_to(r"flusher::Flusher::<K, V, P>::wait$") and g.must_pass(0, [b.idx for b in g.calls_to(r"flusher::Flusher::<K, V, P>::wait$")])]
        filt = [t for bb, t in sl.calls if t.callee and re.search(r"Iterator::(filter|take|skip|step_by|take_while|skip_while|filter_map)$", t.callee)]
        aw = awaited(ja[0])
        okj = bool(mp) and over_flushers and bool(cl) and not filt and bool(aw) and c.must_pass(0, aw)
    r.require(okj, c, "wait awaits every flusher", "join_all(flushers.iter().map(|f| f.wait())).await on every path, no filtering adaptor",
              "BlockEngine::wait does not await a Wait round-trip through every flusher: close() / flush can return while entries are still queued or being written", ln=c.lo)
    wr = c.calls_to(r"manager::BlockManager::wait_reclaim$")
    okr = len(wr) == 1 and bool(awaited(wr[0])) and c.must_pass(0, awaited(wr[0]))
    r.require(okr, c, "wait awaits the reclaimers", "block_manager.wait_reclaim().await on every path", "BlockEngine::wait does not wait for running reclaims (re-insertions may still be queued when close returns)", ln=c.lo)
    # Flusher::wait submits a Wait submission and its future resolves from the receiver
    FL = "foyer_storage::engine::block::flusher::Flusher"
    fw = F.method(FL, "wait")
    sub = fw.calls_to(r"Flusher::<K, V, P>::submit$")
    okw = len(sub) == 1 and fw.must_pass(0, [sub[0].idx]) and any(s_.k == "assign" and s_.rv.k == "agg" and s_.rv.j.get("variant") == "Wait" for b in fw.blocks for s_ in b.stmts)
    cor = [g for g in F.descendants(fw) if g.kind == "coroutine"]
    okw = okw and len(cor) == 1 and bool(cor[0].calls_to(r"future::IntoFuture::into_future$")) and any("oneshot::Receiver" in (cor[0].local_ty(l) or "") for l in range(cor[0].nlocals))
    r.require(okw, fw, "Flusher::wait = submit(Wait{tx}) then await rx", "the returned future resolves when the flusher answers the Wait", "Flusher::wait does not submit a Wait submission / await its answer", ln=fw.lo)
    # the flusher answers waiters only in handle_io_complete (after the batch's io), and recv only queues them
    RUN = "foyer_storage::engine::block::flusher::Runner"
    sends = []
    for f in F.all_fns("P"):
        if (F.P.get(f.root, f).self_ty or "").startswith(RUN):
            for b in f.calls_to(r"oneshot::Sender::<T>::send$"):
                if "()" in (f.local_ty(b.term.args[1].place.local) if b.term.args[1].place is not None else "()"):
                    sends.append(F.P.get(f.root, f).id.rsplit("::", 1)[-1])
    r.require(bool(sends) and set(sends) == {"handle_io_complete"}, None, "waiters answered only on io completion", "oneshot send(()) sites of the runner: %s" % sorted(set(sends)),
              "a flusher answers Wait submissions outside handle_io_complete (%s): the answer can overtake the write of the entries queued before it" % sorted(set(sends)))


def flag_writers(r, F):
    """who-may-write for the two flags that gate writes to disk: `active` of the block engine is cleared only by close (a second writer makes the engine refuse or
    accept work at the wrong time); the probation mark is set only by a picker and cleared only by BlockStatistics::reset"""
    seen = {}
    for f in F.all_fns("P"):
        if f.crate.name != "foyer_storage" or "::tests::" in f.short or "test_utils" in f.file:
            continue
        for b in f.calls_to(r"atomic::Atomic::<bool>::(fetch_or|store|swap|fetch_and|fetch_xor|fetch_nand|compare_exchange\w*|fetch_update)$"):
            sl = backslice(f, b.term.args[0], "prov")
            for fld in ("active", "probation"):
                if any(n == fld for of, n in sl.fields):
                    root = F.P.get(f.root, f).short
                    val = b.term.args[1].const_val() if len(b.term.args) > 1 and b.term.args[1].is_const() else "?"
                    seen.setdefault(fld, set()).add((root.rsplit("::", 2)[-2] + "::" + root.rsplit("::", 1)[-1], val))
    r.require(seen.get("active") == {("BlockEngine::close", 0)}, None, "only close clears `active`", "writers of BlockEngineInner.active: %s" % sorted(seen.get("active", ())),
              "the engine's `active` flag is written at %s: expected a single store(false) in BlockEngine::close" % sorted(seen.get("active", ())))
    pw = seen.get("probation", set())
    r.require(any(v == 1 and "Picker" in w for w, v in pw) and any(v == 0 and w.endswith("BlockStatistics::reset") for w, v in pw) and all(("Picker" in w and v == 1) or (w.endswith("BlockStatistics::reset") and v == 0) for w, v in pw), None,
              "probation is set by pickers, cleared by reset", "writers of BlockStatistics.probation: %s" % sorted(pw), "the probation mark is written at %s: expected store(true) in a picker and store(false) in BlockStatistics::reset only" % sorted(pw))


def drop_closes(r, F):
    d = F.method(HC + "::Inner", "drop", "Drop")
    bodies = [d] + F.descendants(d)
    calls = [(g, b) for g in bodies for b in g.calls_to(r"Inner::<K, V, S>::close_inner$")]
    sp = [(g, b) for g in bodies for b in g.calls_to(r"Spawner::spawn$")]
    ok = bool(calls) and bool(sp)
    if ok:
        g, b = calls[0]
        got = []
        for a in b.term.args:
            sl = backslice(g, a, "prov")
            fld = None
            # follow the captured variable back to the field of `self` it was read from (through nested async blocks / closures)
            cur, ups = g, set(sl.upvars)
            for _ in range(4):
                srcs = mir.upvar_sources(F, cur)
                nxt, cur2 = set(), cur
                for u in ups:
                    if u in srcs:
                        par, o = srcs[u]
                        psl = backslice(par, o, "prov")
                        for of, n in psl.fields:
                            if of.endswith("cache::Inner"):
                                fld = n
                        nxt |= psl.upvars
                        cur2 = par
                if fld or not nxt:
                    break
                cur, ups = cur2, nxt
            got.append(fld)
        ok = got == ["closed", "memory", "storage", "flush_on_close"]
    r.require(ok, d, "Drop spawns close_inner(closed, memory, storage, flush_on_close)", "dropping the last handle performs the same graceful close",
              "dropping the hybrid cache does not run close_inner with its own flag / tiers", ln=d.lo)
    # the drop path is unconditional, and nobody but close_inner itself flips the `closed` flag (a guard in Drop that sets it first makes close_inner return at once:
    # neither the flush nor the store's close would run)
    spd = [b_.idx for g_, b_ in sp if g_ is d]
    inner_ok = all(g_.must_pass(0, [b_.idx]) for g_, b_ in calls)       # inside the spawned future close_inner is called on every path
    r.require(bool(spd) and d.must_pass(0, spd) and inner_ok, d, "Drop closes unconditionally", "every path of Drop::drop spawns the future, every path of the future calls close_inner",
              "Drop for the hybrid cache's Inner can return without spawning close_inner (an `already closed` guard or another condition): the last handle's drop then neither flushes memory nor closes the store", ln=d.lo)
    writers = set()
    for f in F.all_fns("P"):
        if f.crate.name != "foyer" or "::tests::" in f.short:
            continue
        for b_ in f.calls_to(r"atomic::Atomic::<bool>::(fetch_or|store|swap|fetch_and|fetch_xor|fetch_nand|compare_exchange\w*|fetch_update)$"):
            sl = backslice(f, b_.term.args[0], "prov")
            if any(n == "closed" and of.endswith("cache::Inner") for of, n in sl.fields) or "closed" in sl.upvars or re.search(r"Inner::close_inner", f.short):
                writers.add(F.P.get(f.root, f).short.rsplit("::", 1)[-1])
    r.require(writers == {"close_inner"}, None, "only close_inner writes the closed flag", "writers of Inner.closed: %s" % sorted(writers),
              "the `closed` flag is written outside close_inner (%s): close_inner then believes the cache is already closed and skips the flush and the store's close" % sorted(writers))
    # and close() forwards the same four
    c = F.fn(HC + "::Inner::close::{closure#0}")
    cs = c.calls_to(r"Inner::<K, V, S>::close_inner$")
    flds = []
    if cs:
        for a in cs[0].term.args:
            sl = backslice(c, a, "prov")
            flds.append(sorted(n for of, n in sl.fields if of.endswith("cache::Inner"))[:1])
    r.require([f[0] if f else None for f in flds] == ["closed", "memory", "storage", "flush_on_close"], c, "close() -> close_inner(self.closed, self.memory, self.storage, self.flush_on_close)",
              "close forwards its own fields in order", "Inner::close passes the wrong fields to close_inner: %s" % flds, ln=c.lo)


def run(chk, F):
    chk.run_rule("C15.close-order", "closed flag first (idempotent), flush iff flush_on_close and completed before the store is closed, result propagated", 6, close_order, F)
    chk.run_rule("C15.flush-all", "flush evicts every shard to zero and hands every record to the pipe; the pipe enqueues all but in-memory-only pieces after draining", 5, flush_all, F)
    chk.run_rule("C15.engine-refuses", "enqueue/delete test `active` before allocating or submitting; close deactivates then waits", 4, engine_refuses, F)
    chk.run_rule("C15.queue-gate", "the submit-queue admission counter is released for every received entry by the amount added for it; the gate drops only above the threshold", 6, queue_gate, F)
    chk.run_rule("C15.engine-waits", "BlockEngine::wait awaits a Wait round-trip through every flusher and the reclaimers; waiters are answered only on io completion", 4, engine_waits, F)
    chk.run_rule("C15.flag-writers", "who may write the engine's `active` flag and the probation mark", 2, flag_writers, F)
    chk.run_rule("C15.drop-closes", "Drop and close() run close_inner with the cache's own flag and tiers; Drop is unconditional; only close_inner writes the closed flag", 4, drop_closes, F)
    chk.run_rule("C15.enqueue-guards-exact", "no extra condition guards the disk write of a flushed / evicted entry", 5, C12.enqueue_guards_exact, F)
    chk.run_rule("C15.inmem-guard", "every Store::enqueue of the hybrid layer is control-dependent on location != InMem", 5, C12.inmem_guard, F)
    from rules import mustcall
    mustcall.run_for(chk, F, "C15")
