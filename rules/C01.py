"""C01 — the hybrid cache never returns a stale or foreign value (DESIGN.md §4 C01)."""
import re

from sa import mir, tables, flow, asyncs
from sa.mir import backslice, AnchorMissing
from rules import common

TITLE = ("C01: lookup order, key guard, sequence decision tables (index / recovery), synchronous tombstone, index-before-release, "
         "keeper identity, reject-deletes, sequence restore, phantom replace, both tiers on remove/clear.")
NOT_DECIDED = [
    "that these mechanisms suffice under every interleaving of flusher batching, completion order, reclaim and reopen",
    "equality of the returned value with the last inserted value (value flow through serialization is C08)",
    "the race between a reclaimer re-insertion and a concurrent delete",
]

IDX = "foyer_storage::engine::block::indexer"
SEQ_T = [r"indexer::Index::sequence$"]


def _role_seq_of(pred_slice):
    """operand is Index::sequence(x) / a sequence value whose source x satisfies pred_slice(fn, Slice)"""
    def pred(fn, op):
        if op.place is None:
            return False
        sl = backslice(fn, op, "prov", extra_transparent=SEQ_T)
        return pred_slice(fn, sl)
    return pred


def seq_tables(r, F):
    # 1. Indexer::insert_inner
    fn = F.method(IDX + "::Indexer", "insert_inner")
    act = [b.idx for b in fn.calls_to(r"hash_map::OccupiedEntry::<'a, K, V, A>::insert$")]
    if not act:
        raise AnchorMissing("insert_inner: OccupiedEntry::insert not found")
    found = tables.find_cmp(fn, _role_seq_of(lambda f, sl: 4 in sl.args), _role_seq_of(lambda f, sl: sl.has_call(r"OccupiedEntry::<'a, K, V, A>::get$")),
                            "comparison of the new sequence with the stored sequence")
    for c, flipped in found:
        tab = tables.table(fn, c, flipped, act)
        r.require(tab == ("no", "yes", "yes"), fn, "new?old -> replace", "table (new<old, =, >) -> replace stored index: %s" % (tab,),
                  "the disk index must be replaced exactly by an equal-or-higher sequence (`=` for re-insertions, `>` for updates); got table "
                  "(new<old,=,>) -> %s: an older write can overwrite a newer one / a re-insertion or update is ignored" % (tab,), ln=c.ln)
    # the non-replacing edge does not write the map
    # 2. Indexer::remove_batch
    fn = F.method(IDX + "::Indexer", "remove_batch")
    act = [b.idx for b in fn.calls_to(r"hash_map::OccupiedEntry::<'a, K, V, A>::remove$")]
    if not act:
        raise AnchorMissing("remove_batch: OccupiedEntry::remove not found")
    found = tables.find_cmp(fn, lambda f, op: op.place is not None and not backslice(f, op, "prov", extra_transparent=SEQ_T).has_call(r"OccupiedEntry") and
                            backslice(f, op, "prov").has_call(r"Iterator::next$"),
                            _role_seq_of(lambda f, sl: sl.has_call(r"OccupiedEntry::<'a, K, V, A>::get$")), "comparison of the given sequence with the stored one")
    for c, flipped in found:
        tab = tables.table(fn, c, flipped, act)
        r.require(tab[0] == "no" and tab[1] in ("yes", "maybe") and tab[2] in ("yes", "maybe"), fn, "given?stored -> remove",
                  "table (given<stored, =, >) -> remove: %s" % (tab,),
                  "remove_batch must not remove an index entry that is newer than the given sequence; got (given<stored,=,>) -> %s" % (tab,), ln=c.ln)
    # 3. RecoverRunner::run insert_or_update closure
    cands = [f for f in F.fns(r"recover::RecoverRunner::run::\{closure#0\}::\{closure#\d+\}$") if tables.comparisons(f) and f.calls_to(r"OccupiedEntry::<'a, K, V, A>::get_mut$")]
    if len(cands) != 1:
        raise AnchorMissing("RecoverRunner::run: the insert_or_update closure was not found (candidates %d)" % len(cands))
    fn = cands[0]
    gm = {b.idx for b in fn.calls_to(r"OccupiedEntry::<'a, K, V, A>::get_mut$")}
    # action: assignment through the reference obtained from get_mut
    act = []
    for b in fn.blocks:
        if b.cleanup:
            continue
        for s in b.stmts:
            if s.k == "assign" and s.place.has_deref() and any(bb in gm for bb, _ in backslice(fn, s.place, "prov").calls):
                act.append(b.idx)
        if b.term.k == "drop" and b.term.place.has_deref() and any(bb in gm for bb, _ in backslice(fn, b.term.place, "prov").calls):
            act.append(b.idx)
    found = tables.find_cmp(fn, tables.role_arg(3), lambda f, op: op.place is not None and any(bb in gm for bb, _ in backslice(f, op, "prov").calls),
                            "comparison of a recovered sequence with the latest one seen")
    for c, flipped in found:
        tab = tables.table(fn, c, flipped, act)
        r.require(tab[0] == "no" and tab[2] in ("yes", "maybe") and bool(act), fn, "new?latest -> overwrite",
                  "recovery keeps the highest sequence per hash: table (new<latest, =, >) -> overwrite %s" % (tab,),
                  "recovery dedup must keep the highest sequence per hash; got (new<latest,=,>) -> %s: after a restart an older copy (or a deleted one) wins" % (tab,), ln=c.ln)
    # 4. BlockRecoverRunner::run: a sequence regression stops the scan of the block
    block_regression(r, F)


def block_regression(r, F):
    """within one block, an entry whose sequence is lower than the last entry recovered FROM THAT BLOCK (across blobs) ends the scan: blobs
    left over from the block's previous life keep valid checksums (only the first page is wiped on reclaim)"""
    fn = F.fn("foyer_storage::engine::block::recover::BlockRecoverRunner::run::{closure#0}")
    pushes = [b for b in fn.calls_to(r"Vec::<T, A>::push$")]
    acc = set()
    for b in pushes:
        acc |= {l for l in backslice(fn, b.term.args[0], "prov").locals if "Vec<" in fn.local_ty(l) and "EntryInfo" in fn.local_ty(l)}
    act = [b.idx for b in pushes]
    if not acc:
        raise AnchorMissing("BlockRecoverRunner::run: the per-block accumulator of recovered entries was not found")

    nxt_blocks = [b.idx for b in fn.calls_to(r"scanner::BlockScanner::next$")]
    in_scan_loop = fn.reachable(nxt_blocks)

    def is_last_of_block(f, op):
        """the compared value survives from blob to blob: it is read from the per-block accumulator, or it is a running variable that is
        initialised before the scan loop (never re-initialised inside it) and updated from entry sequences"""
        if op.place is None:
            return False
        sl = backslice(f, op, "dep", opaque=r"scanner::BlockScanner::next$")
        if sl.locals & acc:
            return True
        for l in backslice(f, op, "prov").locals:
            ds = [d for d in f.defs().get(l, []) if d[2] == "assign" and not f.blocks[d[0]].cleanup]
            inits = [d for d in ds if d[3].rv.k == "use" and d[3].rv.ops[0].is_const()]
            upd = [d for d in ds if d not in inits]
            if inits and upd and all(d[0] not in in_scan_loop for d in inits) and \
                    all(backslice(f, d[3].rv.ops[0], "prov").has_field("sequence", "EntryAddress") for d in upd if d[3].rv.ops):
                return True
        return False
    try:
        found = tables.find_cmp(fn, tables.role_field("sequence", "EntryAddress"), is_last_of_block, "comparison of an entry's sequence with the last one recovered from the block")
    except AnchorMissing:
        r.fail(fn, "entry?last -> keep", "the sequence-regression guard does not compare against the last entry recovered from the whole block (e.g. it is reset per "
               "blob): a blob left over from the block's previous life, which still has a valid index checksum, is accepted after the current data ends", ln=fn.lo)
        return
    for c, flipped in found:
        tab = tables.table(fn, c, flipped, act)
        r.require(tab[0] == "no" and tab[2] in ("yes", "maybe"), fn, "entry?last -> keep", "a regressing sequence ends the block's recovery: (entry<last,=,>) -> keep %s" % (tab,),
                  "a blob whose sequence regresses (stale data of a previous block generation) must stop the block scan; got (entry<last,=,>) -> keep %s" % (tab,), ln=c.ln)
        # on the regression edge the whole block scan ends (no further BlockScanner::next)
        nxt = [b.idx for b in fn.calls_to(r"scanner::BlockScanner::next$")]
        lt_t = c.target("lt", flipped)
        r.require(not (set(nxt) & fn.reachable([lt_t], avoid=[c.sw.idx])), fn, "regression -> stop scanning this block", "the scan of the block ends", "after a sequence regression the block is scanned further", ln=c.ln)


def delete_sync(r, F):
    fn = F.method("foyer_storage::engine::block::engine::BlockEngine", "delete")
    it = fn.calls_to(r"indexer::Indexer::insert_tombstone$")
    sub = fn.calls_to(r"Flusher::<K, V, P>::submit$")
    fa = fn.calls_to(r"atomic::Atomic::<u64>::fetch_add$")
    if len(it) != 1 or len(sub) != 1 or len(fa) != 1:
        raise AnchorMissing("BlockEngine::delete: insert_tombstone / submit / fetch_add not found exactly once")
    # the only way out of delete() that skips the tombstone is the closed-engine test: from its `active` edge every path to return
    # inserts the tombstone and submits it ("not indexed" does not mean "no disk-bound copy": a queued piece is indexed only when its write completes)
    loads = [b for b in fn.calls_to(r"atomic::Atomic::<bool>::load$") if backslice(fn, b.term.args[0], "prov").has_field("active")]
    start = 0
    for l in loads[:1]:
        for (swb, neg) in tables._bool_switches_on(fn, l.idx):
            tt, ft = tables.bool_switch_targets(swb)
            if neg:
                tt, ft = ft, tt
            start = tt
    r.require(fn.must_pass(start, [it[0].idx]) and fn.must_pass(start, [sub[0].idx]), fn, "every delete on an open engine tombstones and logs",
              "no early return between the closed-engine test and the tombstone", "BlockEngine::delete can return without inserting the tombstone / submitting it (an early return, e.g. for keys "
              "that are `not indexed`): a remove that lands while the key's write is still queued is lost, and the removed value is indexed and served after the flush", ln=fn.lo)
    r.require(fn.dominates(it[0].idx, sub[0].idx) and fn.must_pass(0, [it[0].idx], [sub[0].idx]), fn, "insert_tombstone dom submit",
              "the index is tombstoned synchronously, before the delete is queued", "delete queues the tombstone without first marking the index: a lookup right after remove() still finds the disk copy", ln=it[0].term.ln)
    s1 = backslice(fn, it[0].term.args[2], "prov")
    sub_sl = backslice(fn, sub[0].term.args[1], "dep")
    same = any(bb == fa[0].idx for bb, _ in s1.calls) and any(bb == fa[0].idx for bb, _ in sub_sl.calls)
    r.require(same, fn, "one sequence for index and log", "index tombstone and logged tombstone carry the same fresh sequence",
              "the tombstone put in the index and the one sent to the flusher do not carry the same freshly allocated sequence", ln=fa[0].term.ln)
    r.require(2 in backslice(fn, it[0].term.args[1], "prov").args, fn, "tombstone hash = requested hash", "hash operand is the parameter", "the tombstone is inserted under a different hash", ln=it[0].term.ln)


def keeper_identity(r, F):
    fn = F.method("foyer_storage::keeper::PieceRef", "drop", "Drop")
    rem = fn.calls_to(r"hash_table::OccupiedEntry::<'a, T, A>::remove$")
    if not rem:
        raise AnchorMissing("PieceRef::drop: OccupiedEntry::remove not found")
    # identity predicates: calls returning bool with one argument from the occupied entry and one from self.piece whose callee
    # body compares the `record` pointers of two pieces
    ident = []
    for b in fn.calls():
        t = b.term
        if not t.callee or len(t.args) != 2 or fn.local_ty(t.dest.local) != "bool":
            continue
        s0 = backslice(fn, t.args[0], "prov")
        s1 = backslice(fn, t.args[1], "prov")
        occ = lambda s: s.has_call(r"OccupiedEntry::<'a, T, A>::get$")
        mine = lambda s: s.has_field("piece", "PieceRef")
        if not ((occ(s0) and mine(s1)) or (occ(s1) and mine(s0))):
            continue
        callee = F.callee_fn(t)
        if callee is None:
            continue
        # the callee compares field `record` of both of its parameters (pointer identity)
        ok = False
        for cb in callee.calls_to(r"ptr::eq$"):
            a = backslice(callee, cb.term.args[0], "prov")
            c = backslice(callee, cb.term.args[1], "prov")
            if a.has_field("record") and c.has_field("record") and ({1, 2} <= (a.args | c.args)):
                ok = True
        for c in tables.comparisons(callee):
            if c.op == "Eq":
                a = backslice(callee, c.lhs, "prov")
                d = backslice(callee, c.rhs, "prov")
                if a.has_field("record") and d.has_field("record") and ({1, 2} <= (a.args | d.args)):
                    ok = True
        for s in [s for bb in callee.blocks for s in bb.stmts if s.k == "assign" and s.rv.k == "bin" and s.rv.op == "Eq"]:
            a = backslice(callee, s.rv.ops[0], "prov")
            d = backslice(callee, s.rv.ops[1], "prov")
            if a.has_field("record") and d.has_field("record") and ({1, 2} <= (a.args | d.args)):
                ok = True
        if ok:
            ident.append(b)
    for rb in rem:
        guarded = False
        for ib in ident:
            for (swb, neg) in tables._bool_switches_on(fn, ib.idx):
                tt, ft = tables.bool_switch_targets(swb)
                if neg:
                    tt, ft = ft, tt
                if fn.edge_guards(swb.idx, tt, rb.idx):
                    guarded = True
        r.require(guarded, fn, "remove guarded by record identity",
                  "the keeper entry is removed only if it is the very piece this reference registered (identity test at line %s)" % [b.term.ln for b in ident],
                  "PieceRef::drop removes whatever piece is registered under its key: flushing (or shedding) an OLDER version evicts the NEWER queued "
                  "version from the keeper, and lookups fall through to the stale disk copy", ln=rb.term.ln)


def reject_deletes(r, F):
    fn = F.fn("foyer_storage::store::Store::enqueue")
    e = [b.idx for b in fn.calls_to(r"^foyer_storage::engine::Engine::enqueue$")]
    d = [b.idx for b in fn.calls_to(r"store::Store::<K, V, S, P>::delete$|^foyer_storage::engine::Engine::delete$")]
    if not e or not d:
        raise AnchorMissing("Store::enqueue: Engine::enqueue / delete calls not found")
    r.require(fn.must_pass(0, e + d), fn, "every path: enqueue or delete", "an update is either written or the older disk copy is deleted",
              "Store::enqueue has a path that neither writes the entry nor deletes the older disk copy: after an admission-rejected update the "
              "disk tier still serves the previous version", ln=fn.lo)
    dl = F.fn("foyer_storage::store::Store::delete")
    ed = [b.idx for b in dl.calls_to(r"^foyer_storage::engine::Engine::delete$")]
    h = dl.calls_to(r"BuildHasher::hash_one$")
    r.require(bool(ed) and dl.must_pass(0, ed) and len(h) == 1 and any(bb == h[0].idx for bb, _ in backslice(dl, dl.blocks[ed[0]].term.args[1], "prov").calls),
              dl, "Store::delete -> Engine::delete(hash_one(key))", "delete reaches the engine with the key's hash", "Store::delete does not always reach the engine with the key's hash", ln=dl.lo)
    # keeper.insert dominates engine.enqueue (the piece is visible in the write queue before it is submitted)
    k = [b.idx for b in fn.calls_to(r"keeper::Keeper::<K, V, P>::insert$")]
    r.require(bool(k) and all(any(fn.dominates(kb, eb) for kb in k) for eb in e), fn, "Keeper::insert dom Engine::enqueue",
              "the piece is registered in the write queue before it is submitted", "an entry is submitted to the engine without being registered in the keeper first", ln=fn.lo)


def _strip_add(fn, op):
    """(base operand, c) if op is `base + c` with a constant c (through the checked-add tuple), else (op, 0)"""
    if op.place is None or not op.place.is_local() and not op.place.proj:
        return op, 0
    defs = fn.defs().get(op.place.local, [])
    ds = [d for d in defs if d[2] == "assign" and not fn.blocks[d[0]].cleanup]
    if len(ds) != 1:
        return op, 0
    rv = ds[0][3].rv
    if rv.k == "use" and rv.ops[0].place is not None:
        inner = rv.ops[0]
        # `_x = move (_y.0)` where `_y = AddWithOverflow(a, c)`
        ds2 = [d for d in fn.defs().get(inner.place.local, []) if d[2] == "assign"]
        if len(ds2) == 1 and ds2[0][3].rv.k == "bin" and ds2[0][3].rv.op in ("AddWithOverflow", "Add"):
            l, rr = ds2[0][3].rv.ops
            for a, k in ((l, rr), (rr, l)):
                if k.is_const() and k.const_val() is not None:
                    return a, k.const_val()
        if inner.place.is_local():
            return _strip_add(fn, inner)
    if rv.k == "bin" and rv.op in ("AddWithOverflow", "Add"):
        l, rr = rv.ops
        for a, k in ((l, rr), (rr, l)):
            if k.is_const() and k.const_val() is not None:
                return a, k.const_val()
    return op, 0


def seq_restore(r, F):
    fn = F.fn("foyer_storage::engine::block::recover::RecoverRunner::run::{closure#0}")
    st = fn.calls_to(r"atomic::Atomic::<u64>::store$")
    st = [b for b in st if backslice(fn, b.term.args[0], "prov").upvars & mir.upvars_from_param(F, fn, 5) or backslice(fn, b.term.args[0], "prov").has_field("sequence")] or st
    if len(st) != 1:
        raise AnchorMissing("RecoverRunner::run: the store on the sequence counter was not found exactly once (%d)" % len(st))
    errs = [b.idx for b in fn.calls_to(r"FromResidual")] + [b.idx for b in fn.blocks if not b.cleanup for s_ in b.stmts if s_.k == "assign" and s_.rv.k == "agg" and s_.rv.j.get("variant") == "Err"]
    r.require(fn.must_pass(0, [st[0].idx] + errs), fn, "the counter is restored on every successful recovery", "sequence.store(..) is unconditional (error returns excepted)",
              "recovery can finish without restoring the sequence counter: the engine restarts numbering below recovered entries, so new writes lose against old ones", ln=st[0].term.ln)
    base, gplus = _strip_add(fn, st[0].term.args[1])
    if base.place is None:
        raise AnchorMissing("RecoverRunner::run: the stored sequence is a constant")
    # the fold variable: the user local the stored value is read from
    bsl = backslice(fn, base, "prov")
    fold = {l for l in bsl.locals if fn.local_name(l)}
    if not fold:
        raise AnchorMissing("RecoverRunner::run: the variable folded into the stored sequence was not identified")
    # closures that capture the fold variable by mutable reference: upvar name per closure
    cap = {}
    for b in fn.blocks:
        for s in b.stmts:
            if s.k == "assign" and s.rv.k == "agg" and s.rv.j.get("ak") == "closure":
                for (name, o) in s.rv.agg_fields():
                    if o.place is not None and set(backslice(fn, o, "prov").locals) & fold:
                        cap[s.rv.j["def"]] = name
    srcs = {"EntryAddress": None, "Tombstone": None}
    bodies = [(fn, None)] + [(F.P[cid], up) for cid, up in cap.items() if cid in F.P]
    for g, up in bodies:
        for b in g.blocks:
            if b.cleanup:
                continue
            for s in b.stmts:
                if s.k != "assign":
                    continue
                if up is None:
                    tgt = s.place.is_local() and s.place.local in fold
                else:
                    tgt = s.place.local == 1 and s.place.fields()[:1] == [up]
                if not tgt:
                    continue
                rhs = s.rv.ops[0] if s.rv.ops else None
                if rhs is None:
                    continue
                dsl = backslice(g, rhs, "dep")
                for k in srcs:
                    if dsl.has_field("sequence", k):
                        # a +c applied on the way from the source field to the fold variable?
                        plus = 0
                        for _, bs in dsl.binops:
                            if bs.rv.k == "bin" and bs.rv.op in ("AddWithOverflow", "Add"):
                                l, rr = bs.rv.ops
                                for a, kk in ((l, rr), (rr, l)):
                                    if kk.is_const() and (kk.const_val() or 0) >= 1 and a.place is not None and backslice(g, a, "dep").has_field("sequence", k):
                                        plus = max(plus, kk.const_val())
                        srcs[k] = max(srcs[k] or 0, plus) if srcs[k] is not None else plus
    for k, what in (("EntryAddress", "recovered entry"), ("Tombstone", "recovered tombstone")):
        folded = srcs[k] is not None
        strictly = folded and (gplus >= 1 or srcs[k] >= 1)
        r.require(folded, fn, "counter >= every %s" % what, "%s sequences are folded into the restored counter" % what,
                  "the restored sequence counter ignores %s sequences" % what, ln=st[0].term.ln)
        r.require(strictly, fn, "counter > every %s" % what,
                  "the counter restarts strictly above every %s (+%d at the store, +%d at the fold)" % (what, gplus, srcs[k] or 0),
                  "after recovery the sequence counter is not strictly above every %s sequence: the first write after a restart reuses the "
                  "sequence of the newest persisted record, and equal sequences let an older version replace a newer one" % what, ln=st[0].term.ln)


def phantom(r, F):
    fn = F.method("foyer_memory::raw::RawCacheShard", "emplace")
    ph = fn.calls_to(r"Properties::phantom$")
    if not ph:
        raise AnchorMissing("emplace: properties().phantom() not found")
    rem = [b.idx for b in fn.calls_to(r"^foyer_memory::indexer::Indexer::remove$")]
    ins = [b.idx for b in fn.calls_to(r"^foyer_memory::indexer::Indexer::insert$")] + [b.idx for b in fn.calls_to(r"^foyer_memory::eviction::Eviction::push$")]
    ok = False
    for pb in ph:
        for sw in mir.find_switches(fn):
            if not any(bb == pb.idx for bb, _ in backslice(fn, sw.term.discr, "prov").calls):
                continue
            tt, ft = tables.bool_switch_targets(sw)
            reach = fn.reachable([tt], avoid=[sw.idx])
            if fn.must_pass(tt, rem) and not (set(ins) & reach):
                ok = True
    r.require(ok, fn, "phantom -> Indexer::remove, no insert/push", "a disk-only insert removes the in-memory copy of the key and is not indexed",
              "a disk-only (phantom) insert leaves the previous in-memory copy of the key in place (or indexes the phantom): lookups keep returning the old value", ln=ph[0].term.ln)


def both_tiers(r, F):
    HC = "foyer::hybrid::cache::HybridCache"
    rm = F.method(HC, "remove")
    a = [b.idx for b in rm.calls_to(r"^foyer_memory::Cache::<K, V, S, P>::remove$")]
    b_ = [b.idx for b in rm.calls_to(r"Store::<K, V, S, P>::delete$")]
    r.require(bool(a) and bool(b_) and rm.must_pass(0, a) and rm.must_pass(0, b_), rm, "remove -> memory.remove & storage.delete",
              "remove reaches both tiers on every path", "HybridCache::remove does not remove from both the memory and the disk tier on every path", ln=rm.lo)
    clr = [f for f in F.fns(r"^foyer::hybrid::cache::HybridCache::clear(::\{closure#0\})?$")]
    bodies = clr
    a = [(f, b.idx) for f in bodies for b in f.calls_to(r"^foyer_memory::Cache::<K, V, S, P>::clear$")]
    d = [(f, b.idx) for f in bodies for b in f.calls_to(r"Store::<K, V, S, P>::destroy$")]
    ok = bool(a) and bool(d) and all(f.must_pass(0, [bi]) for f, bi in a + d)
    r.require(ok, clr[0] if clr else None, "clear -> memory.clear & storage.destroy", "clear reaches both tiers on every path",
              "HybridCache::clear does not clear both tiers on every path", ln=clr[0].lo if clr else None)


def queue_release(r, F):
    """index update happens-before the write-queue reference is released"""
    RUN = "foyer_storage::engine::block::flusher::Runner"
    sub = F.method(RUN, "submit_io_task")
    hic = F.method(RUN, "handle_io_complete")
    # (a) the spawned io future captures no PieceRef: piece_refs flows only into the completion closure (`.map(move |jres| ...)`)
    spawned = sub.calls_to(r"spawn::Spawner::spawn$")
    if len(spawned) != 1:
        raise AnchorMissing("submit_io_task: Spawner::spawn not found exactly once")
    sp_sl = backslice(sub, spawned[0].term.args[1], "dep")
    prs = [l for l in range(1, sub.argc + 1) if "keeper::PieceRef<" in sub.local_ty(l)]
    if len(prs) != 1:
        raise AnchorMissing("submit_io_task: the Vec<PieceRef> parameter was not found")
    pr = prs[0]
    r.require(pr not in sp_sl.args, sub, "spawned io future captures no PieceRef", "piece_refs is not part of the spawned write task",
              "the write task owns the PieceRefs: they can be released (dropped) before the index is updated", ln=spawned[0].term.ln)
    # (b) Indexer::insert_batch is executed inside the per-block write future after try_join_all(tasks).await?
    wr = [f for f in F.descendants(sub) if f.calls_to(r"indexer::Indexer::insert_batch$")]
    if len(wr) != 1:
        raise AnchorMissing("submit_io_task: the per-block future calling Indexer::insert_batch was not found")
    w = wr[0]
    ib = w.calls_to(r"indexer::Indexer::insert_batch$")[0]
    tj = w.calls_to(r"try_join_all$")
    ok = False
    for t in tj:
        for (tb, ct, bt, swb) in asyncs.awaited_try(F, w, t.idx):
            if ct is not None and w.edge_guards(swb, ct, ib.idx):
                ok = True
    r.require(ok, w, "insert_batch after try_join_all(writes)?", "the index is updated only after every write of the block succeeded",
              "Indexer::insert_batch is not control-dependent on the success of the block's device writes: the index can point at data that was never written", ln=ib.term.ln)
    # (c) the PieceRefs are dropped only in handle_io_complete (after the join) — ownership flow of parameter 2
    fl = flow.forward(F, sub, [pr])
    # they must reach an IoTaskCtx aggregate (the completion context), nothing else
    ctxs = [s for f in [sub] + F.descendants(sub) for b in f.blocks for s in b.stmts if s.k == "assign" and s.rv.k == "agg" and (s.rv.j.get("adt") or "").endswith("IoTaskCtx")]
    def _carries_refs(g, s):
        return any(o.place is not None and "keeper::PieceRef<" in g.local_ty(o.place.local) for _, o in s.rv.agg_fields())
    ctxs2 = [(g, s) for g in [sub] + F.descendants(sub) for b in g.blocks for s in b.stmts if s.k == "assign" and s.rv.k == "agg" and (s.rv.j.get("adt") or "").endswith("IoTaskCtx")]
    r.require(bool(ctxs2) and all(_carries_refs(g, s) for g, s in ctxs2), sub, "piece_refs handed to the completion context",
              "every completion context (%d arms) carries the PieceRefs back to the runner" % len(ctxs), "a completion arm drops the PieceRefs inside the io task", ln=sub.lo)
    # (d) in Runner::run the context's piece_refs go to handle_io_complete, which is called after the io task finished
    hprs = [l for l in range(1, hic.argc + 1) if "keeper::PieceRef<" in hic.local_ty(l)]
    drops = hic.calls_to(r"mem::drop$")
    r.require(len(hprs) == 1 and bool(drops) and any(hprs[0] in backslice(hic, d.term.args[0], "prov").args for d in drops), hic,
              "handle_io_complete drops piece_refs", "the write-queue references are released on io completion", "handle_io_complete does not release the PieceRefs", ln=hic.lo)


def keeper_insert(r, F):
    """Keeper::insert makes the piece visible to Store::load for as long as the returned PieceRef lives: it is stored under its key on BOTH arms of the table
    entry (vacant: inserted; occupied: the newer version replaces the queued one) and the reference remembers the shard so that its drop unregisters it"""
    K = "foyer_storage::keeper::Keeper"
    ins = F.method(K, "insert")
    pcs = [l for l in range(1, ins.argc + 1) if "Piece<" in ins.local_ty(l)]
    if len(pcs) != 1:
        raise AnchorMissing("Keeper::insert: piece parameter not found")
    pc = pcs[0]
    ent = ins.calls_to(r"hashbrown::HashTable::<T, A>::entry$")
    if len(ent) != 1:
        raise AnchorMissing("Keeper::insert: HashTable::entry not found exactly once")
    ok = False
    for (sb, pl, tm, other) in tables.variant_switch_on(ins, ent[0].idx):
        if {"Occupied", "Vacant"} <= set(tm):
            vi = [b for b in ins.calls_to(r"VacantEntry::<'a, T, A>::insert$") if pc in backslice(ins, b.term.args[1], "prov").args]
            okv = bool(vi) and ins.must_pass(tm["Vacant"], [b.idx for b in vi])
            # occupied: a store through the slot handed out by get_mut (or OccupiedEntry::insert / mem::replace on it) of (a clone of) the piece
            gm = [b for b in ins.calls_to(r"OccupiedEntry::<'a, T, A>::(get_mut|into_mut)$")]
            stores = []
            for b in ins.blocks:
                if b.cleanup:
                    continue
                for st in b.stmts:
                    if st.k == "assign" and st.place.has_deref() and st.rv.k == "use" and any(bb == g.idx for g in gm for bb, _ in backslice(ins, mir.Operand({"c": {"l": st.place.local, "p": []}}), "prov").calls) \
                            and pc in backslice(ins, st.rv.ops[0], "prov").args:
                        stores.append(b.idx)
            stores += [b.idx for b in ins.calls_to(r"OccupiedEntry::<'a, T, A>::insert$|mem::replace$|mem::swap$") if any(a.place is not None and pc in backslice(ins, a, "prov").args for a in b.term.args)]
            oko = bool(stores) and ins.must_pass(tm["Occupied"], stores)
            ok = okv and oko
    r.require(ok, ins, "Keeper::insert stores the piece on both arms", "vacant -> insert(piece), occupied -> slot := piece, on every path of the arm",
              "Keeper::insert does not register the piece under its key on every path (vacant and occupied): while the entry waits in the flusher queue Store::load misses it and "
              "answers from the older disk copy (or reports a miss) — a read right after a write does not see the write", ln=ins.lo)
    res = [st for b in ins.blocks if not b.cleanup for st in b.stmts if st.k == "assign" and st.rv.k == "agg" and (st.rv.j.get("adt") or "").endswith("keeper::PieceRef")]
    ok2 = False
    for st in res:
        fl = dict(st.rv.agg_fields())
        shard_some = any(s2.k == "assign" and s2.rv.k == "agg" and s2.rv.j.get("variant") == "Some" and fl["shard"].place is not None and s2.place.local == fl["shard"].place.local
                         for b in ins.blocks for s2 in b.stmts)
        ok2 = pc in backslice(ins, fl["piece"], "prov").args and shard_some
    r.require(ok2, ins, "PieceRef remembers piece and shard", "PieceRef { piece, shard: Some(shard) }", "the PieceRef returned by Keeper::insert does not carry the piece / its shard: dropping it never unregisters the queue entry", ln=ins.lo)
    # the runner keeps the reference of every ACCEPTED entry until the batch's io completes: recv pushes it on the `enqueued` edge, run hands exactly that vector to the io task
    RUN = "foyer_storage::engine::block::flusher::Runner"
    recv = F.method(RUN, "recv")
    bp = recv.calls_to(r"buffer::Buffer::push$")
    # the runner's collection of PieceRefs is found by type (a Vec<PieceRef<..>> field of Runner), not by its name
    def _is_refs(fn_, op):
        return op.place is not None and "keeper::PieceRef<" in (fn_.local_ty(op.place.local) or "")
    pushes = [b for b in recv.calls_to(r"Vec::<T, A>::push$") if _is_refs(recv, b.term.args[1]) and any(of == RUN for of, n in backslice(recv, b.term.args[0], "prov").fields)]
    ok3 = len(bp) == 1 and len(pushes) == 1
    if ok3:
        ok3 = False
        for (swb, neg) in tables._bool_switches_on(recv, bp[0].idx):
            tt, ft = tables.bool_switch_targets(swb)
            if neg:
                tt, ft = ft, tt
            ok3 = recv.must_pass(tt, [pushes[0].idx]) and any(of.endswith("Submission::CacheEntry") and n == "piece" for of, n in backslice(recv, pushes[0].term.args[1], "prov").fields)
    r.require(ok3, recv, "accepted entry -> its PieceRef is kept", "on the `buffer accepted` edge the submission's piece is pushed to piece_refs on every path",
              "Runner::recv does not keep the PieceRef of an entry the buffer accepted: the reference is dropped at once, the write-queue entry disappears before the data is indexed, and lookups in "
              "between miss the entry", ln=recv.lo)
    run = [f for f in F.descendants(F.method(RUN, "run")) if f.calls_to(r"Runner::<K, V, P>::submit_io_task$")]
    if not run:
        raise AnchorMissing("Runner::run: submit_io_task call not found")
    g = run[0]
    c = g.calls_to(r"Runner::<K, V, P>::submit_io_task$")[0]
    prs = [a for a in c.term.args if a.place is not None and "keeper::PieceRef<" in (g.local_ty(a.place.local) or "")]
    ok4 = len(prs) == 1 and any(t.callee and t.callee.endswith("mem::take") and any(of == RUN for of, n in backslice(g, t.args[0], "prov").fields) for bb, t in backslice(g, prs[0], "prov").calls)
    r.require(ok4, g, "the batch's io task receives the collected PieceRefs", "submit_io_task(.., mem::take(&mut self.piece_refs), ..)", "Runner::run does not hand the collected PieceRefs to the batch's io task", ln=c.term.ln)


def destroy_clears(r, F):
    """HybridCache::clear -> Store::destroy -> BlockEngine::destroy: after the queued writes completed (wait awaited first) the disk index is cleared — every shard —
    and every block's first page is wiped, so that neither a lookup nor a later recovery returns a value from before the clear"""
    B = "foyer_storage::engine::block"
    d = [f for f in F.all_fns("P") if re.search(r"engine::BlockEngine::destroy::\{closure#0\}$", f.short)]
    if len(d) != 1:
        raise AnchorMissing("BlockEngine::destroy async body not found")
    d = d[0]
    errs = [b.idx for b in d.calls_to(r"FromResidual")] + [b.idx for b in d.blocks if not b.cleanup for s_ in b.stmts if s_.k == "assign" and s_.rv.k == "agg" and s_.rv.j.get("variant") == "Err"]
    w = d.calls_to(r"engine::BlockEngine::<K, V, P>::wait$")
    c = d.calls_to(r"indexer::Indexer::clear$")
    tj = d.calls_to(r"future::try_join_all$")
    aw = [b.idx for b in d.calls_to(r"IntoFuture::into_future$") if w and any(bb == w[0].idx for bb, _ in backslice(d, b.term.args[0], "prov").calls)]
    ok = len(w) == 1 and len(c) == 1 and bool(aw) and d.must_pass(0, [c[0].idx] + errs) and all(d.dominates(a, c[0].idx) for a in aw) and \
        any(p.idx in d.reachable([aw[0]]) and c[0].idx in d.reachable([p.idx]) for p in d.calls_to(r"Future::poll$"))
    r.require(ok, d, "destroy: wait().await, then Indexer::clear", "the index is cleared on every non-error path, after the queued writes were awaited",
              "BlockEngine::destroy does not clear the disk index after waiting for the queued writes: entries written before clear() are still served afterwards", ln=d.lo)
    cl = [g for g in F.descendants(d) if g.calls_to(r"reclaimer::BlockCleaner::clean$")]
    okc = len(tj) == 1 and bool(cl) and d.must_pass(0, [tj[0].idx] + errs)
    if okc:
        sl = backslice(d, tj[0].term.args[0], "dep")
        okc = sl.has_call(r"BlockManager::blocks$") and not any(t.callee and re.search(r"Iterator::(filter|take|skip|step_by|take_while|skip_while|filter_map)$", t.callee) for bb, t in sl.calls)
        okc = okc and any(b.idx in d.reachable([tj[0].idx]) for b in d.calls_to(r"IntoFuture::into_future$"))
    r.require(okc, d, "destroy: every block is wiped", "try_join_all over 0..blocks of BlockCleaner::clean, awaited", "BlockEngine::destroy does not wipe the first page of every block: a restart recovers the entries that clear() removed", ln=d.lo)
    ic = F.method(B + "::indexer::Indexer", "clear")
    g = [x for x in F.descendants(ic) if x.calls_to(r"HashMap::<K, V, S, A>::clear$|::clear$")]
    filt = [b for b in ic.calls_to(r"Iterator::(filter|take|skip|step_by|take_while|skip_while|filter_map)$")]
    okk = bool(g) and g[0].must_pass(0, [b.idx for b in g[0].calls_to(r"::clear$")]) and not filt and bool(ic.calls_to(r"Iterator::for_each$")) and \
        backslice(ic, ic.calls_to(r"Iterator::for_each$")[0].term.args[0], "dep").has_field("shards")
    r.require(okk, ic, "Indexer::clear clears every shard", "for_each over self.shards, each cleared under its write lock", "Indexer::clear does not clear every shard of the disk index", ln=ic.lo)


def run(chk, F):
    chk.run_rule("C01.load-order", "memory miss -> write queue (keeper) -> disk index; a keeper hit never goes to the engine", 3, common.load_order, F)
    chk.run_rule("C01.key-guard", "a disk hit is handed out only if the decoded key is equivalent to the requested key", 3, common.key_guard, F)
    chk.run_rule("C01.seq-tables", "sequence comparisons of the index and of recovery follow the prescribed (older, equal, newer) tables", 5, seq_tables, F)
    chk.run_rule("C01.delete-sync", "delete tombstones the index synchronously with the sequence it logs, on every path of an open engine", 4, delete_sync, F)
    chk.run_rule("C01.queue-release", "the disk index is updated (after successful writes) before the write-queue references are released", 4, queue_release, F)
    chk.run_rule("C01.keeper-identity", "a write-queue reference removes only its own piece from the keeper", 1, keeper_identity, F)
    chk.run_rule("C01.reject-deletes", "an admission-rejected update deletes the older disk copy; accepted ones are registered then submitted", 3, reject_deletes, F)
    chk.run_rule("C01.seq-restore", "recovery restarts the sequence counter strictly above every recovered entry and tombstone", 4, seq_restore, F)
    chk.run_rule("C01.phantom", "a disk-only insert removes the in-memory copy of the key", 1, phantom, F)
    chk.run_rule("C01.both-tiers", "remove and clear reach both tiers on every path", 2, both_tiers, F)
    chk.run_rule("C01.destroy-clears", "clear(): the disk tier waits for queued writes, clears every index shard and wipes every block", 3, destroy_clears, F)
    chk.run_rule("C01.keeper-insert", "the write queue registers every piece on both table arms; accepted entries keep their reference until the batch io completes", 4, keeper_insert, F)
    from rules import mustcall
    mustcall.run_for(chk, F, "C01")
