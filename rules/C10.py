"""C10 — with the tombstone log, a flushed delete survives any number of restarts (DESIGN.md §4 C10)."""
import re

from sa import mir, tables, asyncs
from sa.mir import backslice, AnchorMissing

TITLE = "C10: recovered log tail depends on the full position of the newest tombstone; append writes at the tail and flushes; codec symmetry."
NOT_DECIDED = [
    "wrap-around of the log beyond its capacity (one tombstone per device page)",
    "a crash between two page writes of one append",
    "end-to-end absence of the key after reopen (needs the recovery tables of C01/C04 to hold as well)",
]

T = "foyer_storage::engine::block::tombstone"
NEXT = r"iter::Iterator::next$"


def _coroutine(F, short):
    outer = F.fn(short)
    cs = [c for c in F.children(outer) if c.kind == "coroutine"]
    if len(cs) != 1:
        raise AnchorMissing("%s: async body not found" % short)
    return cs[0]


def tail_position(r, F):
    fn = _coroutine(F, T + "::TombstoneLog::open")
    aggs = [(b.idx, s) for b in fn.blocks if not b.cleanup for s in b.stmts
            if s.k == "assign" and s.rv.k == "agg" and s.rv.j.get("adt") == T + "::TombstoneLogInner"]
    if not aggs:
        raise AnchorMissing("TombstoneLog::open: construction of TombstoneLogInner not found")
    # iterator kinds of the scan loops
    nexts = {}
    for b in fn.calls_to(NEXT):
        g = fn.callee_generics(b.term)
        nexts[b.idx] = g[0] if g else "?"
    kinds = {"slot-in-page (Enumerate)": [b for b, t in nexts.items() if "Enumerate<" in t],
             "page offset (StepBy)": [b for b, t in nexts.items() if "StepBy<" in t],
             "partition (slice::Iter)": [b for b, t in nexts.items() if "slice::Iter<" in t and "Partition" in t]}
    for k, v in kinds.items():
        if not v:
            raise AnchorMissing("TombstoneLog::open: scan loop over %s not found (iterators: %s)" % (k, sorted(set(nexts.values()))))
    for (ab, s) in aggs:
        slot_op = dict(s.rv.agg_fields())["slot"]
        # Iterator::next results are induction values: roots whose data source (the page bytes) is not part of the position
        sl = backslice(fn, slot_op, "dep", opaque=NEXT)
        reached = {b for b, _ in sl.calls}
        for k, v in kinds.items():
            if k.startswith("partition"):
                # the partition contributes through its size (base address) — or directly
                part = bool(set(v) & reached) and sl.has_call(r"Partition::size$")
                r.require(part, fn, "tail depends on " + k, "the recovered tail slot depends on the partition base (Partition::size of the scanned partitions)",
                          "the recovered append position does not depend on which partition the newest tombstone was found in: after a reopen the tail "
                          "lands in the wrong page and later deletes overwrite live tombstones", ln=s.ln)
            else:
                r.require(bool(set(v) & reached), fn, "tail depends on " + k, "the recovered tail slot depends on the %s induction value" % k,
                          "the recovered append position (TombstoneLogInner.slot) does not depend on the %s of the newest tombstone: after a reopen "
                          "the tail always lands in the first page/slot range and later deletes overwrite live tombstones" % k, ln=s.ln)


def slot_of_offset(r, F):
    """the recovered tail slot is (position of the newest tombstone) / SERIALIZED_LEN on every branch"""
    from sa import affine
    from rules.C01 import _strip_add
    fn = _coroutine(F, T + "::TombstoneLog::open")
    aggs = [s for b in fn.blocks if not b.cleanup for s in b.stmts if s.k == "assign" and s.rv.k == "agg" and s.rv.j.get("adt") == T + "::TombstoneLogInner"]
    if not aggs:
        raise AnchorMissing("TombstoneLog::open: construction of TombstoneLogInner not found")
    slot_op = dict(aggs[0].rv.agg_fields())["slot"]
    # slot = latest_slot + 1
    sl = backslice(fn, slot_op, "prov")
    cands = [l for l in sl.locals if fn.local_name(l)]
    base, plus = None, 0
    for l in cands:
        ds = [d for d in fn.defs().get(l, []) if d[2] == "assign" and not fn.blocks[d[0]].cleanup]
        if len(ds) == 1:
            b2, c2 = _strip_add(fn, mir.Operand({"c": {"l": l, "p": []}}))
            if c2:
                base, plus = b2, c2
    if base is None or plus != 1:
        raise AnchorMissing("TombstoneLog::open: `slot = <latest slot> + 1` not recognised")
    lsl = backslice(fn, base, "prov")
    latest = [l for l in lsl.locals if fn.local_name(l) and len([d for d in fn.defs().get(l, []) if d[2] == "assign" and not fn.blocks[d[0]].cleanup]) >= 1 and l != base.place.local or l == base.place.local]
    L = base.place.local
    # follow copies to the variable with the branch definitions
    for l in lsl.locals:
        if fn.local_name(l) and len([d for d in fn.defs().get(l, []) if d[2] == "assign" and not fn.blocks[d[0]].cleanup]) > 1:
            L = l
    defs = [d for d in fn.defs().get(L, []) if d[2] == "assign" and not fn.blocks[d[0]].cleanup]
    if not defs:
        raise AnchorMissing("TombstoneLog::open: definitions of the latest-slot variable not found")
    n = 0
    for (b, i, k, s) in defs:
        n += 1
        rv = s.rv
        if rv.k == "bin":
            form = affine.affine(fn, mir.Operand({"c": {"l": s.place.local, "p": []}})) if False else None
        # evaluate the right-hand side as an affine form
        tmp = {"k": "use"}
        if rv.k in ("use", "cast"):
            form = affine.affine(fn, rv.ops[0])
        elif rv.k == "bin":
            a = affine.affine(fn, rv.ops[0], depth=1)
            bb = affine.affine(fn, rv.ops[1], depth=1)
            from fractions import Fraction
            if rv.op == "Div" and affine._const(bb):
                form = {kk: v / bb["1"] for kk, v in a.items()}
            else:
                form = None
        else:
            form = None
        ok = form is not None and len(form) == 1 and "1" not in form and list(form.values())[0] == __import__("fractions").Fraction(1, 16)
        pretty = None if form is None else " + ".join("%s*%s" % (v, kk) for kk, v in sorted(form.items()))
        r.require(ok, fn, "latest slot == offset/16 (branch at line %s)" % "?" if False else "latest slot == offset / SERIALIZED_LEN [def %d]" % n,
                  "affine normal form of this branch: %s" % pretty,
                  "on this branch the recovered slot of the newest tombstone is `%s`, not `offset / 16`: the append position resumes in the wrong place after a "
                  "restart and later deletes overwrite live tombstones (assuming PAGE %% 16 == 0 and offsets are multiples of 16)" % pretty, ln=s.ln)


def codec(r, F):
    w = F.method(T + "::Tombstone", "write")
    rd = F.method(T + "::Tombstone", "read")
    wseq = []
    for b in sorted(w.calls_to(r"bytes::BufMut::put_\w+$"), key=lambda b: b.idx):
        sl = backslice(w, b.term.args[1], "prov")
        fld = [n for of, n in sl.fields if of == T + "::Tombstone"]
        wseq.append((b.term.callee.rsplit("put_", 1)[-1], fld[0] if fld else "?", b.idx))
    # order writer calls by dominance
    wseq.sort(key=lambda x: len(w.dominators().get(x[2], ())))
    rseq = []
    agg = [s for b in rd.blocks for s in b.stmts if s.k == "assign" and s.rv.k == "agg" and s.rv.j.get("adt") == T + "::Tombstone"]
    if not agg:
        raise AnchorMissing("Tombstone::read: aggregate not found")
    fields = dict(agg[0].rv.agg_fields())
    for b in sorted(rd.calls_to(r"bytes::Buf::get_\w+$"), key=lambda b: len(rd.dominators().get(b.idx, ()))):
        dest = b.term.dest.local
        fld = [n for n, o in fields.items() if o.place is not None and dest in backslice(rd, o, "prov").locals]
        rseq.append((b.term.callee.rsplit("get_", 1)[-1], fld[0] if fld else "?"))
    wl = [(a, b) for a, b, _ in wseq]
    r.require(wl == rseq and len(wl) == 2, w, "Tombstone write==read", "writer and reader agree: %s" % wl,
              "Tombstone::write emits %s but Tombstone::read consumes %s" % (wl, rseq), ln=w.lo)
    width = sum({"u64": 8, "u32": 4, "u16": 2, "u8": 1}.get(a.replace("_le", ""), 0) for a, _ in wl)
    r.require(width == 16, w, "SERIALIZED_LEN==sum(widths)", "16 bytes per tombstone", "tombstone width %d != 16" % width, ln=w.lo)


def append(r, F):
    fn = _coroutine(F, T + "::TombstoneLog::append")
    flushes = [b.idx for b in fn.calls_to(r"PageBuffer::flush$")]
    loads = [b.idx for b in fn.calls_to(r"PageBuffer::load$")]
    writes = [b.idx for b in fn.calls_to(r"tombstone::Tombstone::write$")]
    addrs = [b.idx for b in fn.calls_to(r"TombstoneLog::slot_addr$")]
    if not (flushes and loads and writes and addrs):
        raise AnchorMissing("append: flush/load/write/slot_addr calls not all found")
    # slot_addr(inner.slot) per tombstone, write, slot += 1
    a = fn.blocks[addrs[0]].term
    r.require(backslice(fn, a.args[1], "prov").has_field("slot", T + "::TombstoneLogInner"), fn, "slot_addr(inner.slot)",
              "the write position is computed from the tail slot", "append does not compute the write position from inner.slot", ln=a.ln)
    ups = [u for u in tables.field_updates(fn, "slot", T + "::TombstoneLogInner")]
    nexts = [b.idx for b in fn.calls_to(NEXT)]
    ok = any(u["kind"] == "add" and u["other"] is not None and u["other"].const_val() == 1 for u in ups)
    r.require(ok and all(fn.must_pass(wb, [u["block"] for u in ups if u["kind"] == "add"], fn.returns() + nexts) for wb in writes), fn, "write->slot+=1",
              "every written tombstone advances the tail by one", "a tombstone is written without advancing the tail slot (the next one overwrites it)", ln=fn.blocks[writes[0]].term.ln)
    # page change: flush (propagated) then load (propagated) before the write
    cmpf = tables.find_cmp(fn, lambda f, o: o.place is not None and any(bb in addrs for bb, _ in backslice(f, o, "prov").calls),
                           tables.role_field("page", T + "::PageBuffer"), "comparison of the slot's page with the buffered page")
    for c, flipped in cmpf:
        in_loop_flush = [fb for fb in flushes if fn.blocks[fb].term.ln <= max(fn.blocks[w_].term.ln for w_ in writes)]
        tab = tables.table(fn, c, flipped, in_loop_flush, stop=writes)
        r.require(tab[0] == "yes" and tab[2] == "yes" and tab[1] == "no", fn, "page!=buffered->flush", "table (page<,=,>buffered) -> flush current page first: %s" % (tab,),
                  "append does not flush the buffered page exactly when the target page differs: %s" % (tab,), ln=c.ln)
        for fb in in_loop_flush:
            tr = asyncs.awaited_try(F, fn, fb)
            r.require(bool(tr) and all(any(fn.dominates(ct, lb) or ct == lb for lb in loads) or fn.must_pass(ct, loads, writes + fn.returns()) for (_, ct, _, _) in tr if ct is not None),
                      fn, "flush?->load", "the old page is flushed (error propagated) before the new page is loaded",
                      "the result of flushing the old page is not propagated before the new page is loaded", ln=fn.blocks[fb].term.ln)
    # final flush dominates the Ok return: every path from the loop exit to return passes a flush whose result is returned
    tail = [fb for fb in flushes if not any(fb in fn.reachable([fb2]) and fb != fb2 for fb2 in []) and not (set(fn.reachable([fb])) & set(writes))]
    r.require(bool(tail), fn, "final-flush", "a flush follows the last write", "append returns without flushing the page it wrote", ln=fn.lo)
    for wb in writes:
        r.require(fn.must_pass(wb, [fb for fb in flushes], fn.returns()), fn, "write->flush before return",
                  "every path from a tombstone write to return passes a page flush", "a written tombstone can be acknowledged without its page being flushed",
                  ln=fn.blocks[wb].term.ln)
    for fb in tail:
        sl = backslice(fn, 0, "dep")
        r.require(any(b == fb for b, _ in sl.calls), fn, "final-flush-result-returned", "the result of the final flush is the function's result",
                  "the result of the final flush is discarded: a failed page write is acknowledged as flushed", ln=fn.blocks[fb].term.ln)


def recovered_slots(r, F):
    """TombstoneLog::open treats a slot as empty exactly when its sequence is 0: every other slot is recorded (and later returned to recovery)"""
    fn = _coroutine(F, "foyer_storage::engine::block::tombstone::TombstoneLog::open")
    pushes = [b.idx for b in fn.calls_to(r"Vec::<T, A>::push$") if any("Tombstone" in (fn.local_ty(a.place.local) or "") for a in b.term.args if a.place is not None)]
    found = tables.find_cmp(fn, tables.role_field("sequence", "foyer_storage::engine::block::tombstone::Tombstone"), tables.role_const(0), "comparison of a slot's sequence with 0")
    found = [(c, fl) for c, fl in found if c.op in ("Eq", "Ne")]
    r.require(len(found) == 1 and bool(pushes), fn, "one empty-slot test", "a single sequence ? 0 test guards the recording of a slot", "TombstoneLog::open has %d empty-slot tests" % len(found), ln=fn.lo)
    for c, fl in found:
        tab = tables.table(fn, c, fl, pushes)
        r.require(tab[1] == "no" and tab[2] != "no", fn, "slot recorded iff sequence != 0", "table (seq<0, =0, >0) -> recorded: %s" % (tab,),
                  "TombstoneLog::open records a slot on (seq<0,=0,>0) = %s: written tombstones are skipped (deleted keys return after a restart) or empty slots are recovered as tombstones" % (tab,), ln=c.ln)


def locate(r, F):
    """PageBuffer::locate maps a log page to (partition, byte offset): a page belongs to the current partition only while page < pages of that partition;
    at equality it is the FIRST page of the next partition (writing it at offset == partition size would land outside the partition and recovery, which reads
    partitions page by page, would never see those tombstones)."""
    fn = F.method("foyer_storage::engine::block::tombstone::PageBuffer", "locate")
    ret = [b.idx for b in fn.blocks if not b.cleanup for s in b.stmts if s.k == "assign" and s.place.local == 0 and s.place.is_local()]
    if not ret:
        raise AnchorMissing("PageBuffer::locate: result construction not found")
    pages = lambda f, op: op.place is not None and backslice(f, op, "dep").has_call(r"Partition::size$") and 2 not in backslice(f, op, "dep").args
    page = lambda f, op: op.place is not None and 2 in backslice(f, op, "dep").args
    found = tables.find_cmp(fn, page, pages, "comparison of the page number with the partition's page count")
    r.require(len(found) == 1, fn, "one partition test", "a single page ? partition_pages test", "PageBuffer::locate has %d partition tests" % len(found), ln=fn.lo)
    for c, fl in found:
        tab = tables.table(fn, c, fl, ret)
        r.require(tab == ("yes", "no", "no"), fn, "locate: page ? partition_pages -> resolved here", "table (page<pages, =, >) -> this partition: %s" % (tab,),
                  "PageBuffer::locate must resolve a page in the current partition only while page < partition_pages (at equality it is the first page of the next partition); got %s "
                  "— a page is written outside its partition and the tombstones in it are lost at the next open" % (tab,), ln=c.ln)
        # on the other edge the page number is reduced by this partition's pages and the partition index advances
        ge_t = c.target("eq", fl)
        reach = fn.reachable([ge_t], avoid=[c.sw.idx])
        subs = [s for b in fn.blocks if b.idx in reach for s in b.stmts if s.k == "assign" and s.rv.k == "bin" and s.rv.op in ("Sub", "SubWithOverflow", "SubUnchecked")]
        adds = [s for b in fn.blocks if b.idx in reach for s in b.stmts if s.k == "assign" and s.rv.k == "bin" and s.rv.op in ("Add", "AddWithOverflow", "AddUnchecked") and any(o.is_const() and o.const_val() == 1 for o in s.rv.ops)]
        r.require(bool(subs) and any(pages(fn, s.rv.ops[1]) for s in subs) and bool(adds), fn, "locate: next partition", "page -= partition_pages; partition += 1",
                  "PageBuffer::locate does not subtract the skipped partition's pages / advance the partition index when moving on", ln=c.ln)


def run(chk, F):
    chk.run_rule("C10.tail-depends-on-position", "the recovered log tail depends on partition, page offset and in-page slot of the newest tombstone", 3, tail_position, F)
    chk.run_rule("C10.slot-of-offset", "every branch computing the newest tombstone's slot is affine-equal to offset / SERIALIZED_LEN", 2, slot_of_offset, F)
    chk.run_rule("C10.codec", "Tombstone::write and ::read agree on field order and width", 2, codec, F)
    chk.run_rule("C10.append", "append writes at the tail slot, advances it, flushes on page change and before returning, propagating errors", 6, append, F)
    chk.run_rule("C10.locate", "a log page resolves to the partition that holds it: current partition iff page < its page count, else subtract and advance", 3, locate, F)
    from rules import mustcall
    mustcall.run_for(chk, F, "C10")
    chk.run_rule("C10.recovered-slots", "open records exactly the slots whose sequence is not 0", 2, recovered_slots, F)
