"""C16 — user callbacks run outside cache locks, so re-entrant use cannot deadlock (DESIGN.md §4 C16).

The property *is* a static one: the lock/effect analysis (sa/locks.py) decides it up to call-graph precision.
"""
import re

from sa import mir, tables, locks
from sa.mir import backslice, AnchorMissing, short_path

TITLE = "C16: no listener / weighter / filter / pipe call and no key-or-value destructor while an internal lock is held; acyclic lock order; no sync guard across await."
NOT_DECIDED = [
    "callbacks reached through foreign `dyn` objects the call graph cannot see (waker wake-ups; the user's Eq/Hash/Clone on keys, which the property does not list)",
    "user eviction pickers / reinsertion pickers (they run under the block manager's State lock, but are not in the property's list)",
    "destructors of opaque fetch closures (reported as observations in the evidence, not as violations: the property lists keys and values)",
    "absence of deadlock in general (only: the acquired-while-holding graph over lock classes is acyclic)",
]

CLASS_OK = re.compile(r"foyer_(memory|storage|fixture)::|HashTable<foyer|HashMap<u64, foyer_storage")
KV_PARAM = re.compile(r"^(K|V|Q)$|as foyer_memory::(eviction::)?Eviction>::(Key|Value)$|::Owned$|as foyer_fixture::Eviction>::(Key|Value)$")
RECORD_ARC = re.compile(r"^(std::option::Option<)?std::sync::Arc<foyer_memory::record::Record<")

# One named construct each, with the co-owner that keeps the drop from being the last reference (confirmed by reading).
# key: (function def path without generics, role) ; role = <user variable or tmp>/<producer of the dropped value>
ALLOW = {
    ("foyer_memory::eviction::Eviction::clear", "tmp/pop"):
        "default Eviction::clear pops every record while RawCacheShard::clear holds them all in its `records` vector (drained from the index just before)",
    ("<foyer_memory::eviction::lfu::Lfu<K, V, P> as foyer_memory::eviction::Eviction>::clear", "tmp/pop"):
        "same as the default clear: RawCacheShard::clear's `records` vector co-owns every popped record",
    ("<foyer_memory::eviction::lru::Lru<K, V, P> as foyer_memory::eviction::Eviction>::clear", "tmp/pop"):
        "same as the default clear: RawCacheShard::clear's `records` vector co-owns every popped record",
    ("<foyer_memory::eviction::lru::Lru<K, V, P> as foyer_memory::eviction::Eviction>::clear", "tmp/pop_front"):
        "pinned records drained from pin_list are still in the shard index snapshot `records` held by RawCacheShard::clear (and by the handles that pinned them)",
    ("<foyer_memory::eviction::sieve::Sieve<K, V, P> as foyer_memory::eviction::Eviction>::pop", "self.hand/field"):
        "the old hand is a clone_pointer of a node that is still linked in the queue (the queue owns it) or is the victim being returned",
    ("<foyer_memory::eviction::sieve::Sieve<K, V, P> as foyer_memory::eviction::Eviction>::remove", "self.hand/field"):
        "guarded by Arc::ptr_eq(hand, record): the caller's `record` borrow co-owns the allocation",
    ("foyer_memory::raw::RawCacheShard::evict", "tmp/remove"):
        "`e` is the same allocation as `evicted` (asserted ptr-equal two statements earlier) and `evicted` is moved into `garbages`",
    ("foyer_memory::raw::RawCacheShard::emplace", "param2/param"):
        "the parameter's clones live in the index, the eviction container and in the caller (insert_inner keeps `record`)",
    ("foyer_memory::raw::RawCacheShard::emplace", "param4/param"):
        "the overwritten vector is the fresh empty `vec![]` of insert_inner; a oneshot Sender<T> owns no T",
    ("foyer_storage::keeper::Keeper::insert", "tmp/get_mut"):
        "the replaced piece is co-owned by the PieceRef of the earlier enqueue that registered it (still in the write queue)",
    ("<foyer_storage::keeper::PieceRef<K, V, P> as std::ops::Drop>::drop", "tmp/remove"):
        "the removed piece is ptr_eq to self.piece (identity-checked), which co-owns the record until this drop returns",
}


_FIXTURE = False


def _role(fn, term):
    """name-free description of what is dropped: parameter position, field path, or the producer of a temporary"""
    pl = term.place
    base = "self" if pl.local == 1 and fn.argc >= 1 else ("param%d" % pl.local if 1 <= pl.local <= fn.argc else "tmp")
    if pl.proj and pl.fields():
        return base + "." + ".".join(pl.fields()) + "/field"
    if 1 <= pl.local <= fn.argc:
        return "param%d/param" % pl.local
    sl = backslice(fn, mir.Place({"l": pl.local, "p": []}), "prov")
    prod = "?"
    for b, t in sl.calls:
        if t.callee and not mir.is_transparent(t.callee):
            prod = t.callee.rsplit("::", 1)[-1]
    if prod == "?":
        for b, t in sl.calls:
            if t.callee:
                prod = t.callee.rsplit("::", 1)[-1]
    return "tmp/" + prod


def _kv_owner(glue):
    ps = [p for p in glue["params"] if KV_PARAM.search(p)]
    return sorted(set(ps))


def _noop_refinements(fn, blk, term):
    """(i) drop of an enum place dominated by the switch edge selecting a field-less variant of that same place;
       (ii) drop of an exhausted iterator on the None edge of its own next()"""
    pl = term.place
    if not pl.is_local():
        return None
    ty = fn.ty(term.j["ty"])
    for (sb, spl, tm, other) in tables.discr_switches(fn):
        if spl.is_local() and spl.local == pl.local and "None" in tm and tm["None"] != tm.get("Some"):
            if fn.edge_guards(sb.idx, tm["None"], blk):
                return "the place is `None` on this path (drop dominated by the None edge of its own match)"
    if "IntoIter<" in ty or "Drain<" in ty:
        for cb in fn.calls_to(r"iter::Iterator::next$"):
            sl = backslice(fn, cb.term.args[0], "prov")
            if pl.local in sl.locals:
                for (sb, spl, tm, other) in tables.variant_switch_on(fn, cb.idx):
                    if "None" in tm and fn.edge_guards(sb.idx, tm["None"], blk):
                        return "the iterator is exhausted on this path (drop dominated by the None edge of its own next())"
    return None


def _alias_of_borrowed_arc(fn, term):
    """(iii) the dropped Arc<Record> was produced by `remove_from_ptr(Arc::as_ptr(record))` where `record` is a `&Arc<Record>`
    parameter: the caller's borrow proves another live owner of the same allocation"""
    pl = term.place
    if not pl.is_local():
        return None
    sl = backslice(fn, pl, "prov")
    for b, t in sl.calls:
        if t.callee and t.callee.endswith("remove_from_ptr") and len(t.args) >= 2:
            psl = backslice(fn, t.args[1], "prov", extra_transparent=[r"Arc::<T, A>::as_ptr$", r"Arc::<T>::as_ptr$"])
            for a in psl.args:
                if fn.local_ty(a).startswith("&") and "std::sync::Arc<foyer_memory::record::Record<" in fn.local_ty(a):
                    return "alias of the borrowed parameter `%s` (remove_from_ptr(Arc::as_ptr(%s))): the caller's reference is a live co-owner" % (
                        fn.local_name(a) or "_%d" % a, fn.local_name(a) or "_%d" % a)
    return None


def _held_ok(held):
    return sorted({c for (k, c) in held if CLASS_OK.search(c)})


def no_callback_under_lock(r, F, A=None):
    A = A or locks.analysis(F)
    n = 0
    for s in A.effect_sites():
        n += 1
        held = _held_ok(s.held)
        what = "%s (%s)" % (s.kind, s.detail)
        role = "%s:%s" % (s.kind, short_path(s.term.callee).rsplit("::", 1)[-1])
        if held:
            chain = []
            for (k, c) in s.held:
                chain += A.chain(s.fn.id, (k, c))
            r.fail(s.fn, role, "%s is invoked while %s may be held%s: a callback that re-enters the cache deadlocks" % (
                what, ", ".join(held), (" — reached via " + " <- ".join(chain[:4])) if chain else ""), ln=s.ln)
        else:
            r.ok(s.fn, role, "%s invoked with no internal lock held" % what, ln=s.ln)
    if n < 10 and not _FIXTURE:
        r.fail(None, "sites", "only %d callback call sites found (listener / weighter / filter / pipe); 10+ confirmed on the pinned tree" % n)


def no_user_drop_under_lock(r, F, A=None):
    A = A or locks.analysis(F)
    n_under = 0
    observations = []
    seen = set()
    for s in A.drop_sites():
        held = _held_ok(s.held)
        if not held:
            continue
        ty = s.fn.ty(s.term.j["ty"])
        if locks.GUARD_RX.search(ty):
            continue
        n_under += 1
        kv = _kv_owner(s.detail)
        if not kv:
            op = [o for o in s.detail["opaque"] if locks.USER_OPAQUE.search(o)]
            if op:
                observations.append("%s: %s dropped under %s" % (s.fn.short, ty[:60], held))
            continue
        role = _role(s.fn, s.term)
        key = (s.fn.short, role)
        if key in seen:
            continue
        seen.add(key)
        why = _noop_refinements(s.fn, s.block, s.term)
        if why is None and RECORD_ARC.search(ty):
            why = _alias_of_borrowed_arc(s.fn, s.term)
        if why is None and key in ALLOW:
            why = "allow-listed: " + ALLOW[key]
        if why:
            r.ok(s.fn, "drop:" + role, why, ln=s.ln)
        else:
            chain = []
            for (k, c) in s.held:
                chain += A.chain(s.fn.id, (k, c))
            r.fail(s.fn, "drop:" + role, "a value of type `%s` that owns user data (%s) is dropped while %s may be held%s: a key/value destructor that "
                   "re-enters the cache deadlocks" % (ty[:90], ", ".join(kv)[:120], ", ".join(held), (" — reached via " + " <- ".join(chain[:3])) if chain else ""), ln=s.ln)
    # values destroyed by a call (mem::drop, Vec::clear, ...) rather than by a Drop terminator
    for s in A.droplike_sites():
        held = _held_ok(s.held)
        if not held:
            continue
        n_under += 1
        owning = [t for t in s.detail if locks.USER_TYPE_TEXT.search(t) and not locks.GUARD_RX.search(t)]
        callee = s.term.callee.rsplit("::", 1)[-1]
        a = s.term.args[0]
        root = next((l for l in sorted(backslice(s.fn, a, "prov").locals) if 1 <= l <= s.fn.argc), None)
        nm = ("param%d" % root) if root else "local"
        role = "call:%s(%s)" % (callee, nm)
        if not owning:
            continue
        key = (s.fn.short, role)
        if key in seen:
            continue
        seen.add(key)
        if key in ALLOW:
            r.ok(s.fn, role, "allow-listed: " + ALLOW[key], ln=s.ln)
        else:
            r.fail(s.fn, role, "`%s` destroys a value of type `%s` (owns keys/values) while %s may be held: a key/value destructor that re-enters the cache deadlocks" % (
                callee, owning[0][:90], ", ".join(held)), ln=s.ln)
    r.check.notes.append({"opaque-closure drops under lock (observation)": observations[:10]})
    if n_under < 20 and not _FIXTURE:
        r.fail(None, "sites", "only %d drops under a lock were analysed (the pinned tree has far more): the lock-region analysis lost its anchors" % n_under)


# class-level self edges that are hierarchical at instance level (one line of reason each)
ORDER_OK = {
    ("foyer_storage::io::device::combined::Inner", "foyer_storage::io::device::combined::Inner"):
        "composite device tree: a CombinedDevice locks its own table and then delegates to its CHILD devices, which are built before the "
        "parent and never reference it (instances form a tree)",
}


def lock_order(r, F, A=None):
    A = A or locks.analysis(F)
    edges = {}
    for s in A.acquire_sites():
        k2, c2 = s.detail
        if not CLASS_OK.search(c2):
            continue
        for (k1, c1) in s.held:
            if not CLASS_OK.search(c1):
                continue
            edges.setdefault((c1, c2), []).append(s)
    # self edges and cycles
    nodes = {a for a, b in edges} | {b for a, b in edges}
    adj = {n: {b for (a, b) in edges if a == n} for n in nodes}
    for (a, b), ss in sorted(edges.items()):
        s = ss[0]
        # can b reach a?
        stack, seen = [b], set()
        cyc = a == b
        while stack and not cyc:
            x = stack.pop()
            if x in seen:
                continue
            seen.add(x)
            if a in adj.get(x, ()):
                cyc = True
            stack.extend(adj.get(x, ()))
        role = "%s -> %s" % (a.split("<")[0].rsplit("::", 1)[-1], b.split("<")[0].rsplit("::", 1)[-1])
        if cyc and (a, b) in ORDER_OK:
            r.ok(s.fn, "order:" + role, "hierarchical (allow-listed): " + ORDER_OK[(a, b)], ln=s.ln)
        elif cyc:
            chain = []
            for kc in s.held:
                chain += A.chain(s.fn.id, kc)
            r.fail(s.fn, "order:" + role, "lock class %s is acquired while %s may be held and the reverse order also exists (or it is the same class): "
                   "two operations can deadlock%s" % (b, a, (" — reached via " + " <- ".join(chain[:3])) if chain else ""), ln=s.ln)
        else:
            r.ok(s.fn, "order:" + role, "%s acquired while holding %s (%d site(s)); no path back" % (b, a, len(ss)), ln=s.ln)
    acq = [s for s in A.acquire_sites() if CLASS_OK.search(s.detail[1])]
    if len(acq) < 30 and not _FIXTURE:
        r.fail(None, "sites", "only %d lock acquisitions found (30+ confirmed)" % len(acq))
    r.ok("foyer_*", "acquisitions", "%d lock acquisition sites of %d classes analysed" % (len(acq), len({s.detail[1] for s in acq})))


def no_guard_across_await(r, F, A=None):
    A = A or locks.analysis(F)
    n = 0
    for s in A.yield_sites():
        n += 1
        bad = sorted({c for (k, c) in s.held if k != "async-mutex"})
        if bad:
            r.fail(s.fn, "yield-with:" + bad[0].rsplit("::", 1)[-1], "a synchronous lock guard on %s is live across an await point: the task can be suspended holding the lock" % bad, ln=s.ln)
    r.ok("foyer_*", "await points", "%d await points inspected; no synchronous guard live across any" % n)
    if n < 50 and not _FIXTURE:
        r.fail(None, "sites", "only %d await points found (50+ confirmed)" % n)


def run(chk, F):
    A = locks.analysis(F)
    chk.run_rule("C16.no-callback-under-lock", "event listeners, weighters, filters and the pipe are never invoked while an internal lock may be held", 10, no_callback_under_lock, F, A)
    chk.run_rule("C16.no-user-drop-under-lock", "no value owning a key or value is dropped while an internal lock may be held (refinements + one-construct allow-list)", 8, no_user_drop_under_lock, F, A)
    chk.run_rule("C16.lock-order", "the acquired-while-holding graph over lock classes has no self edge and no cycle", 2, lock_order, F, A)
    chk.run_rule("C16.no-guard-across-await", "no synchronous lock guard is live across an await point", 1, no_guard_across_await, F, A)


EXPECT_FIXTURE = {
    "C16.no-callback-under-lock": {"bad": ["bad_callback_under_lock"], "good": ["good_callback_after_lock"]},
    "C16.no-user-drop-under-lock": {"bad": ["bad_user_drop_under_lock", "bad_clear_under_lock"], "good": ["good_user_drop_after_lock"]},
    "C16.lock-order": {"bad": ["bad_order_shard_then_inflights", "bad_order_inflights_then_shard"], "good": []},
    "C16.no-guard-across-await": {"bad": ["bad_guard_across_await"], "good": ["good_guard_released_before_await"]},
}


def fixtures(chk):
    """zero-count rules must fire on their positive examples (and stay silent on the twins) on every run"""
    global _FIXTURE
    from sa import fixture, report
    r = chk.rule("C16.fixture", "every zero-count rule reports its positive example in fixtures/foyer_fixture and stays silent on the twin", 8)
    try:
        FF = fixture.facts()
    except SystemExit as e:
        r.fail("fixtures/foyer_fixture", "analyse", "the fixture crate could not be analysed: %s" % str(e)[:300])
        return
    A = locks.LockAnalysis(FF)
    scratch = report.Check("C16", chk.tier)
    scratch.config = "fixture"
    _FIXTURE = True
    try:
        scratch.run_rule("C16.no-callback-under-lock", "", 0, no_callback_under_lock, FF, A)
        scratch.run_rule("C16.no-user-drop-under-lock", "", 0, no_user_drop_under_lock, FF, A)
        scratch.run_rule("C16.lock-order", "", 0, lock_order, FF, A)
        scratch.run_rule("C16.no-guard-across-await", "", 0, no_guard_across_await, FF, A)
    finally:
        _FIXTURE = False
    for sr in scratch.rules:
        reported = {v["fn"] for v in sr.violations}
        exp = EXPECT_FIXTURE.get(sr.id, {"bad": [], "good": []})
        for b in exp["bad"]:
            hit = any(b in f for f in reported)
            r.require(hit, "fixtures/foyer_fixture/src/lib.rs", "%s fires on %s" % (sr.id, b), "positive example reported",
                      "the rule %s no longer reports its positive example `%s`: the rule is disarmed" % (sr.id, b))
            chk.fixture_results.append({"rule": sr.id, "example": b, "reported": hit})
        for g in exp["good"]:
            hit = any(g in f for f in reported)
            r.require(not hit, "fixtures/foyer_fixture/src/lib.rs", "%s silent on %s" % (sr.id, g), "negative twin not reported",
                      "the rule %s reports the behaviour-preserving twin `%s`: false alarm" % (sr.id, g))
            chk.fixture_results.append({"rule": sr.id, "example": g, "reported": hit, "twin": True})
