// mirfacts — engine A of /verif: a rustc_private driver that serialises, for every function, closure and
// coroutine of the foyer workspace crates, two forms of MIR as JSON facts:
//   P = mir_promoted (source-shaped CFG, real yields, un-elaborated drops)
//   E = mir_drops_elaborated_and_const_checked (exact drops, with a drop-glue summary)
// Bodies are captured by overriding the two query providers (see DESIGN.md §2, Engine A).
// Usage: RUSTC_WORKSPACE_WRAPPER=mirfacts MIRFACTS_OUT=<dir> cargo +nightly check ...
#![feature(rustc_private)]
#![allow(clippy::all)]
extern crate rustc_abi;
extern crate rustc_data_structures;
extern crate rustc_driver;
extern crate rustc_hir;
extern crate rustc_index;
extern crate rustc_interface;
extern crate rustc_middle;
extern crate rustc_session;
extern crate rustc_span;

use rustc_data_structures::steal::Steal;
use rustc_driver::Compilation;
use rustc_hir::def::DefKind;
use rustc_hir::def_id::{DefId, LocalDefId, LOCAL_CRATE};
use rustc_index::IndexVec;
use rustc_middle::mir::{
    AggregateKind, BasicBlock, Body, BorrowKind, Const, Local, Operand, Place, PlaceElem, Promoted, Rvalue,
    StatementKind, TerminatorKind, UnwindAction,
};
use rustc_middle::ty::print::{with_no_trimmed_paths, with_resolve_crate_name};
use rustc_middle::ty::{self, GenericArgKind, Ty, TyCtxt, TypeVisitableExt};
use std::collections::{HashMap, HashSet};
use std::fmt::Write as _;
use std::sync::{Mutex, OnceLock};

type ProvE = for<'tcx> fn(TyCtxt<'tcx>, LocalDefId) -> &'tcx Steal<Body<'tcx>>;
type ProvP = for<'tcx> fn(
    TyCtxt<'tcx>,
    LocalDefId,
) -> (&'tcx Steal<Body<'tcx>>, &'tcx Steal<IndexVec<Promoted, Body<'tcx>>>);
static ORIG_E: OnceLock<ProvE> = OnceLock::new();
static ORIG_P: OnceLock<ProvP> = OnceLock::new();

struct Store {
    types: Vec<String>,
    tmap: HashMap<String, u32>,
    glues: Vec<String>,
    gmap: HashMap<String, u32>,
    p: Vec<String>,
    e: Vec<String>,
    seen_p: HashSet<String>,
    seen_e: HashSet<String>,
}
static STORE: Mutex<Option<Store>> = Mutex::new(None);

fn with_store<R>(f: impl FnOnce(&mut Store) -> R) -> R {
    let mut g = STORE.lock().unwrap();
    if g.is_none() {
        *g = Some(Store {
            types: Vec::new(),
            tmap: HashMap::new(),
            glues: Vec::new(),
            gmap: HashMap::new(),
            p: Vec::new(),
            e: Vec::new(),
            seen_p: HashSet::new(),
            seen_e: HashSet::new(),
        });
    }
    f(g.as_mut().unwrap())
}

fn intern(s: String) -> u32 {
    with_store(|st| {
        if let Some(i) = st.tmap.get(&s) {
            return *i;
        }
        let i = st.types.len() as u32;
        st.types.push(s.clone());
        st.tmap.insert(s, i);
        i
    })
}

fn intern_glue(s: String) -> u32 {
    with_store(|st| {
        if let Some(i) = st.gmap.get(&s) {
            return *i;
        }
        let i = st.glues.len() as u32;
        st.glues.push(s.clone());
        st.gmap.insert(s, i);
        i
    })
}

fn js(s: &str) -> String {
    let mut o = String::with_capacity(s.len() + 2);
    o.push('"');
    for c in s.chars() {
        match c {
            '"' => o.push_str("\\\""),
            '\\' => o.push_str("\\\\"),
            '\n' => o.push_str("\\n"),
            '\r' => o.push_str("\\r"),
            '\t' => o.push_str("\\t"),
            c if (c as u32) < 0x20 => {
                let _ = write!(o, "\\u{:04x}", c as u32);
            }
            c => o.push(c),
        }
    }
    o.push('"');
    o
}

fn wanted_crate(tcx: TyCtxt<'_>) -> bool {
    let k = tcx.crate_name(LOCAL_CRATE).to_string();
    k.starts_with("foyer") || std::env::var("MIRFACTS_ALL").is_ok()
}

struct Ser<'a, 'tcx> {
    tcx: TyCtxt<'tcx>,
    body: &'a Body<'tcx>,
    def: LocalDefId,
    form: char,
    glue_cache: HashMap<Ty<'tcx>, String>,
}

impl<'a, 'tcx> Ser<'a, 'tcx> {
    fn ty(&self, t: Ty<'tcx>) -> u32 {
        intern(format!("{}", t))
    }
    fn path(&self, d: DefId) -> String {
        self.tcx.def_path_str(d)
    }
    /// canonical id independent of re-exports: crate name + definition path
    fn cid(&self, d: DefId) -> String {
        format!("{}{}", self.tcx.crate_name(d.krate), self.tcx.def_path(d).to_string_no_crate_verbose())
    }
    fn line(&self, sp: rustc_span::Span) -> u32 {
        let sm = self.tcx.sess.source_map();
        // use the outermost call-site so that macro bodies report the user line
        let sp = sp.source_callsite();
        sm.lookup_char_pos(sp.lo()).line as u32
    }

    fn place(&self, p: &Place<'tcx>) -> String {
        let mut o = String::new();
        let _ = write!(o, "{{\"l\":{},\"p\":[", p.local.as_u32());
        let mut pty = rustc_middle::mir::PlaceTy::from_ty(self.body.local_decls[p.local].ty);
        let mut first = true;
        for elem in p.projection.iter() {
            if !first {
                o.push(',');
            }
            first = false;
            match elem {
                PlaceElem::Deref => o.push_str("\"*\""),
                PlaceElem::Field(f, fty) => {
                    let (name, of) = self.field_name(pty, f);
                    let _ = write!(
                        o,
                        "{{\"f\":{},\"n\":{},\"of\":{},\"t\":{}}}",
                        f.as_u32(),
                        js(&name),
                        js(&of),
                        self.ty(fty)
                    );
                }
                PlaceElem::Index(l) => {
                    let _ = write!(o, "{{\"ix\":{}}}", l.as_u32());
                }
                PlaceElem::ConstantIndex { offset, from_end, .. } => {
                    let _ = write!(o, "{{\"cix\":{},\"fe\":{}}}", offset, from_end);
                }
                PlaceElem::Subslice { from, to, from_end } => {
                    let _ = write!(o, "{{\"sub\":[{},{}],\"fe\":{}}}", from, to, from_end);
                }
                PlaceElem::Downcast(sym, vi) => {
                    let n = sym.map(|s| s.to_string()).unwrap_or_else(|| format!("{}", vi.as_u32()));
                    let _ = write!(o, "{{\"dc\":{},\"vi\":{}}}", js(&n), vi.as_u32());
                }
                PlaceElem::OpaqueCast(_) => o.push_str("\"opaque\""),
                PlaceElem::UnwrapUnsafeBinder(_) => o.push_str("\"unbinder\""),
            }
            pty = pty.projection_ty(self.tcx, elem);
        }
        o.push_str("]}");
        o
    }

    fn field_name(&self, pty: rustc_middle::mir::PlaceTy<'tcx>, f: rustc_abi::FieldIdx) -> (String, String) {
        match pty.ty.kind() {
            ty::Adt(adt, _) => {
                let vi = pty.variant_index.unwrap_or(rustc_abi::FIRST_VARIANT);
                if adt.variants().len() > vi.as_usize() {
                    let v = adt.variant(vi);
                    if v.fields.len() > f.as_usize() {
                        let of = if adt.is_enum() {
                            format!("{}::{}", self.path(adt.did()), v.name)
                        } else {
                            self.path(adt.did())
                        };
                        return (v.fields[f].name.to_string(), of);
                    }
                }
                (format!("{}", f.as_u32()), self.path(adt.did()))
            }
            ty::Closure(did, _) | ty::CoroutineClosure(did, _) => {
                let names = self.tcx.closure_saved_names_of_captured_variables(*did);
                let n = names.get(f).map(|s| s.to_string()).unwrap_or_else(|| format!("{}", f.as_u32()));
                (n, "closure".to_string())
            }
            ty::Coroutine(did, _) => {
                if pty.variant_index.is_none() {
                    let names = self.tcx.closure_saved_names_of_captured_variables(*did);
                    let n = names.get(f).map(|s| s.to_string()).unwrap_or_else(|| format!("{}", f.as_u32()));
                    (n, "coroutine".to_string())
                } else {
                    (format!("{}", f.as_u32()), "coroutine-state".to_string())
                }
            }
            ty::Tuple(_) => (format!("{}", f.as_u32()), "tuple".to_string()),
            _ => (format!("{}", f.as_u32()), "?".to_string()),
        }
    }

    fn konst(&self, c: &Const<'tcx>) -> String {
        let t = c.ty();
        let mut o = String::new();
        let _ = write!(o, "{{\"t\":{}", self.ty(t));
        match t.kind() {
            ty::FnDef(did, args) => {
                let _ = write!(o, ",\"fn\":{},\"cid\":{}", js(&self.path(*did)), js(&self.cid(*did)));
                let _ = write!(o, ",\"g\":[");
                let mut first = true;
                for a in args.iter() {
                    match a.kind() {
                        GenericArgKind::Lifetime(_) => continue,
                        GenericArgKind::Type(t) => {
                            if !first {
                                o.push(',');
                            }
                            first = false;
                            let _ = write!(o, "{}", self.ty(t));
                        }
                        GenericArgKind::Const(c) => {
                            if !first {
                                o.push(',');
                            }
                            first = false;
                            let _ = write!(o, "{}", intern(format!("{}", c)));
                        }
                    }
                }
                o.push(']');
            }
            _ => {
                if t.is_integral() || t.is_bool() || t.is_char() {
                    let env = ty::TypingEnv::non_body_analysis(self.tcx, self.def);
                    let is_generic = match c {
                        Const::Unevaluated(u, _) => u.args.iter().any(|a| match a.kind() {
                            GenericArgKind::Type(t) => (t.has_param() || t.has_aliases()),
                            GenericArgKind::Const(_) => true,
                            _ => false,
                        }),
                        Const::Ty(..) => false,
                        Const::Val(..) => false,
                    };
                    if !is_generic {
                        if let Some(si) = c.try_eval_scalar_int(self.tcx, env) {
                            let size = si.size();
                            let bits = si.to_bits(size);
                            let v: i128 = if t.is_signed() { size.sign_extend(bits) as i128 } else { bits as i128 };
                            let _ = write!(o, ",\"v\":{}", v);
                        }
                    }
                }
                if let Const::Unevaluated(u, _) = c {
                    let _ = write!(o, ",\"item\":{}", js(&self.path(u.def)));
                    if let Some(p) = u.promoted {
                        let _ = write!(o, ",\"promoted\":{}", p.as_u32());
                    }
                }
            }
        }
        if !matches!(t.kind(), ty::FnDef(..)) {
            let d: String = format!("{}", c).chars().take(160).collect();
            let _ = write!(o, ",\"s\":{}", js(&d));
        }
        o.push('}');
        o
    }

    fn operand(&self, op: &Operand<'tcx>) -> String {
        match op {
            Operand::Copy(p) => format!("{{\"c\":{}}}", self.place(p)),
            Operand::Move(p) => format!("{{\"m\":{}}}", self.place(p)),
            Operand::Constant(c) => format!("{{\"k\":{}}}", self.konst(&c.const_)),
            #[allow(unreachable_patterns)]
            other => format!("{{\"o\":{}}}", js(&format!("{:?}", other))),
        }
    }

    fn variants_of(&self, t: Ty<'tcx>) -> String {
        let mut o = String::from("[");
        if let ty::Adt(adt, _) = t.kind() {
            if adt.is_enum() {
                let mut first = true;
                for (vi, d) in adt.discriminants(self.tcx) {
                    if !first {
                        o.push(',');
                    }
                    first = false;
                    let _ = write!(o, "[{},{}]", d.val, js(&adt.variant(vi).name.to_string()));
                }
            }
        }
        o.push(']');
        o
    }

    fn rvalue(&self, rv: &Rvalue<'tcx>) -> String {
        match rv {
            Rvalue::Use(op, ..) => format!("{{\"k\":\"use\",\"x\":{}}}", self.operand(op)),
            Rvalue::Ref(_, bk, p) => {
                let m = match bk {
                    BorrowKind::Shared => "shared",
                    BorrowKind::Fake(_) => "fake",
                    BorrowKind::Mut { .. } => "mut",
                };
                format!("{{\"k\":\"ref\",\"m\":\"{}\",\"p\":{}}}", m, self.place(p))
            }
            Rvalue::RawPtr(k, p) => {
                format!("{{\"k\":\"rawptr\",\"m\":{},\"p\":{}}}", js(&format!("{:?}", k)), self.place(p))
            }
            Rvalue::Cast(kind, op, t) => format!(
                "{{\"k\":\"cast\",\"ck\":{},\"x\":{},\"t\":{}}}",
                js(&format!("{:?}", kind)),
                self.operand(op),
                self.ty(*t)
            ),
            Rvalue::BinaryOp(op, b) => format!(
                "{{\"k\":\"bin\",\"op\":\"{:?}\",\"l\":{},\"r\":{}}}",
                op,
                self.operand(&b.0),
                self.operand(&b.1)
            ),
            Rvalue::UnaryOp(op, x) => {
                format!("{{\"k\":\"un\",\"op\":{},\"x\":{}}}", js(&format!("{:?}", op)), self.operand(x))
            }
            Rvalue::Discriminant(p) => {
                let t = p.ty(&self.body.local_decls, self.tcx).ty;
                format!("{{\"k\":\"discr\",\"p\":{},\"vs\":{}}}", self.place(p), self.variants_of(t))
            }
            Rvalue::Aggregate(kind, fields) => {
                let mut o = String::from("{\"k\":\"agg\"");
                let mut names: Vec<String> = Vec::new();
                match &**kind {
                    AggregateKind::Array(_) => o.push_str(",\"ak\":\"array\""),
                    AggregateKind::Tuple => o.push_str(",\"ak\":\"tuple\""),
                    AggregateKind::Adt(did, vi, _, _, active) => {
                        let adt = self.tcx.adt_def(*did);
                        let v = adt.variant(*vi);
                        let _ = write!(
                            o,
                            ",\"ak\":\"adt\",\"adt\":{},\"variant\":{}",
                            js(&self.path(*did)),
                            js(&v.name.to_string())
                        );
                        if let Some(a) = active {
                            names.push(v.fields[*a].name.to_string());
                        } else {
                            for f in v.fields.iter() {
                                names.push(f.name.to_string());
                            }
                        }
                    }
                    AggregateKind::Closure(did, _) => {
                        let _ = write!(o, ",\"ak\":\"closure\",\"def\":{}", js(&self.path(*did)));
                        for n in self.tcx.closure_saved_names_of_captured_variables(*did).iter() {
                            names.push(n.to_string());
                        }
                    }
                    AggregateKind::Coroutine(did, _) => {
                        let _ = write!(o, ",\"ak\":\"coroutine\",\"def\":{}", js(&self.path(*did)));
                        for n in self.tcx.closure_saved_names_of_captured_variables(*did).iter() {
                            names.push(n.to_string());
                        }
                    }
                    AggregateKind::CoroutineClosure(did, _) => {
                        let _ = write!(o, ",\"ak\":\"coroutine_closure\",\"def\":{}", js(&self.path(*did)));
                        for n in self.tcx.closure_saved_names_of_captured_variables(*did).iter() {
                            names.push(n.to_string());
                        }
                    }
                    AggregateKind::RawPtr(..) => o.push_str(",\"ak\":\"rawptr\""),
                }
                o.push_str(",\"fields\":[");
                for (i, f) in fields.iter().enumerate() {
                    if i > 0 {
                        o.push(',');
                    }
                    let n = names.get(i).cloned().unwrap_or_else(|| format!("{}", i));
                    let _ = write!(o, "[{},{}]", js(&n), self.operand(f));
                }
                o.push_str("]}");
                o
            }
            Rvalue::CopyForDeref(p) => format!("{{\"k\":\"use\",\"x\":{{\"c\":{}}},\"cfd\":true}}", self.place(p)),
            Rvalue::Repeat(op, _) => format!("{{\"k\":\"repeat\",\"x\":{}}}", self.operand(op)),
            other => format!("{{\"k\":\"other\",\"s\":{}}}", js(&format!("{:?}", other))),
        }
    }

    /// Summary of what dropping a value of type `t` can run: Drop impls, reachable generic parameters /
    /// projections, opaque dyn / closures / coroutines.
    fn glue(&mut self, t: Ty<'tcx>) -> String {
        if let Some(s) = self.glue_cache.get(&t) {
            return s.clone();
        }
        let mut impls: Vec<String> = Vec::new();
        let mut params: Vec<String> = Vec::new();
        let mut opaque: Vec<String> = Vec::new();
        let mut adts: Vec<String> = Vec::new();
        let mut seen: HashSet<Ty<'tcx>> = HashSet::new();
        let mut stack = vec![t];
        let mut budget = 4000;
        while let Some(t) = stack.pop() {
            if !seen.insert(t) {
                continue;
            }
            budget -= 1;
            if budget == 0 {
                opaque.push("<budget>".into());
                break;
            }
            match t.kind() {
                ty::Adt(adt, args) => {
                    if adt.is_manually_drop() {
                        continue;
                    }
                    let p = self.path(adt.did());
                    if p == "core::marker::PhantomData" {
                        continue;
                    }
                    if !adts.contains(&p) {
                        adts.push(p.clone());
                    }
                    if self.tcx.adt_destructor(adt.did()).is_some() {
                        let s = format!("{}", t);
                        if !impls.contains(&s) {
                            impls.push(s);
                        }
                    }
                    for a in args.iter() {
                        if let GenericArgKind::Type(at) = a.kind() {
                            stack.push(at);
                        }
                    }
                    for v in adt.variants().iter() {
                        for f in v.fields.iter() {
                            stack.push(f.ty(self.tcx, args));
                        }
                    }
                }
                ty::Param(p) => {
                    let s = p.name.to_string();
                    if !params.contains(&s) {
                        params.push(s);
                    }
                }
                ty::Alias(..) => {
                    let s = format!("{}", t);
                    if !params.contains(&s) {
                        params.push(s);
                    }
                }
                ty::Dynamic(..) => {
                    let s = format!("{}", t);
                    if !opaque.contains(&s) {
                        opaque.push(s);
                    }
                }
                ty::Closure(_, args) => {
                    for u in args.as_closure().upvar_tys() {
                        stack.push(u);
                    }
                }
                ty::Coroutine(did, args) => {
                    opaque.push(format!("coroutine {}", self.path(*did)));
                    for u in args.as_coroutine().upvar_tys() {
                        stack.push(u);
                    }
                }
                ty::CoroutineClosure(_, args) => {
                    for u in args.as_coroutine_closure().upvar_tys() {
                        stack.push(u);
                    }
                }
                ty::Tuple(ts) => {
                    for x in ts.iter() {
                        stack.push(x);
                    }
                }
                ty::Array(x, _) | ty::Slice(x) => stack.push(*x),
                // references and raw pointers own nothing
                _ => {}
            }
        }
        let l = |v: &Vec<String>| v.iter().map(|s| js(s)).collect::<Vec<_>>().join(",");
        let s = format!(
            "{{\"impls\":[{}],\"params\":[{}],\"opaque\":[{}],\"adts\":[{}]}}",
            l(&impls),
            l(&params),
            l(&opaque),
            l(&adts)
        );
        let s = format!("{}", intern_glue(s));
        self.glue_cache.insert(t, s.clone());
        s
    }

    fn unwind(&self, u: &UnwindAction) -> String {
        match u {
            UnwindAction::Cleanup(bb) => format!("{}", bb.as_u32()),
            _ => "null".into(),
        }
    }

    fn callee_resolved(&self, did: DefId, args: ty::GenericArgsRef<'tcx>) -> Option<String> {
        // only attempted on the E-form (post-borrowck: no opaque-type cycles)
        if self.form != 'E' {
            return None;
        }
        if !matches!(self.tcx.def_kind(did), DefKind::Fn | DefKind::AssocFn) {
            return None;
        }
        if self.tcx.trait_of_assoc(did).is_none() {
            return None;
        }
        let env = ty::TypingEnv::post_analysis(self.tcx, self.def);
        let args = self.tcx.try_normalize_erasing_regions(env, ty::Unnormalized::new_wip(args)).ok()?;
        match ty::Instance::try_resolve(self.tcx, env, did, args) {
            Ok(Some(inst)) => {
                let rd = inst.def_id();
                if rd != did {
                    Some(self.path(rd))
                } else {
                    None
                }
            }
            _ => None,
        }
    }

    fn body_json(&mut self) -> String {
        let tcx = self.tcx;
        let body = self.body;
        let did = self.def.to_def_id();
        let mut o = String::new();
        let kind = tcx.def_kind(did);
        let kind_s = match kind {
            DefKind::Fn => "fn",
            DefKind::AssocFn => "assoc_fn",
            DefKind::Closure => {
                if tcx.is_coroutine(did) {
                    "coroutine"
                } else {
                    "closure"
                }
            }
            DefKind::SyntheticCoroutineBody => "coroutine_body",
            _ => "other",
        };
        let _ = write!(o, "{{\"id\":{},\"cid\":{},\"kind\":\"{}\"", js(&self.path(did)), js(&self.cid(did)), kind_s);
        let parent = tcx.opt_parent(did);
        if let Some(p) = parent {
            let _ = write!(o, ",\"parent\":{}", js(&self.path(p)));
            // impl info
            let mut cur = Some(p);
            let root = tcx.typeck_root_def_id(did);
            let rp = tcx.opt_parent(root);
            let _ = write!(o, ",\"root\":{}", js(&self.path(root)));
            if let Some(rp) = rp {
                if matches!(tcx.def_kind(rp), DefKind::Impl { .. }) {
                    let self_ty = tcx.type_of(rp).instantiate_identity().skip_norm_wip();
                    let tr = tcx.impl_opt_trait_ref(rp).map(|t| self.path(t.skip_binder().def_id));
                    let _ = write!(
                        o,
                        ",\"impl\":{{\"self_ty\":{},\"trait\":{}}}",
                        self.ty(self_ty),
                        tr.map(|s| js(&s)).unwrap_or("null".into())
                    );
                } else if matches!(tcx.def_kind(rp), DefKind::Trait) {
                    let _ = write!(o, ",\"in_trait\":{}", js(&self.path(rp)));
                }
            }
            let _ = &mut cur;
        }
        let sm = tcx.sess.source_map();
        let lo = sm.lookup_char_pos(body.span.lo());
        let hi = sm.lookup_char_pos(body.span.hi());
        let file = format!("{}", lo.file.name.prefer_local_unconditionally());
        let _ = write!(o, ",\"file\":{},\"lo\":{},\"hi\":{}", js(&file), lo.line, hi.line);
        let _ = write!(o, ",\"argc\":{}", body.arg_count);
        let _ = write!(o, ",\"is_coroutine\":{}", tcx.is_coroutine(did));
        // locals
        o.push_str(",\"locals\":[");
        for (i, d) in body.local_decls.iter().enumerate() {
            if i > 0 {
                o.push(',');
            }
            let _ = write!(o, "{}", self.ty(d.ty));
        }
        o.push(']');
        // debug names
        o.push_str(",\"vars\":[");
        let mut first = true;
        for v in body.var_debug_info.iter() {
            if !first {
                o.push(',');
            }
            first = false;
            match &v.value {
                rustc_middle::mir::VarDebugInfoContents::Place(p) => {
                    let _ = write!(o, "[{},{}]", js(&v.name.to_string()), self.place(p));
                }
                rustc_middle::mir::VarDebugInfoContents::Const(c) => {
                    let _ = write!(o, "[{},{{\"k\":{}}}]", js(&v.name.to_string()), self.konst(&c.const_));
                }
            }
        }
        o.push(']');
        // upvars
        if matches!(kind, DefKind::Closure) {
            o.push_str(",\"upvars\":[");
            for (i, n) in tcx.closure_saved_names_of_captured_variables(did).iter().enumerate() {
                if i > 0 {
                    o.push(',');
                }
                let _ = write!(o, "{}", js(&n.to_string()));
            }
            o.push(']');
        }
        // blocks
        o.push_str(",\"blocks\":[");
        for (bb, data) in body.basic_blocks.iter_enumerated() {
            if bb.as_u32() > 0 {
                o.push(',');
            }
            let _ = write!(o, "{{\"c\":{},\"s\":[", data.is_cleanup);
            let mut first = true;
            for st in data.statements.iter() {
                let s = match &st.kind {
                    StatementKind::Assign(b) => Some(format!(
                        "{{\"k\":\"assign\",\"p\":{},\"rv\":{},\"ln\":{}}}",
                        self.place(&b.0),
                        self.rvalue(&b.1),
                        self.line(st.source_info.span)
                    )),
                    StatementKind::SetDiscriminant { place, variant_index } => Some(format!(
                        "{{\"k\":\"setdiscr\",\"p\":{},\"vi\":{},\"ln\":{}}}",
                        self.place(place),
                        variant_index.as_u32(),
                        self.line(st.source_info.span)
                    )),
                    StatementKind::StorageDead(l) => Some(format!("{{\"k\":\"dead\",\"l\":{}}}", l.as_u32())),
                    StatementKind::StorageLive(_)
                    | StatementKind::FakeRead(..)
                    | StatementKind::PlaceMention(..)
                    | StatementKind::AscribeUserType(..)
                    | StatementKind::Coverage(..)
                    | StatementKind::ConstEvalCounter
                    | StatementKind::Nop
                    | StatementKind::BackwardIncompatibleDropHint { .. } => None,
                    other => Some(format!(
                        "{{\"k\":\"other\",\"s\":{},\"ln\":{}}}",
                        js(&format!("{:?}", other)),
                        self.line(st.source_info.span)
                    )),
                };
                if let Some(s) = s {
                    if !first {
                        o.push(',');
                    }
                    first = false;
                    o.push_str(&s);
                }
            }
            o.push_str("],\"t\":");
            let term = data.terminator();
            let ln = self.line(term.source_info.span);
            let exp = term.source_info.span.from_expansion();
            let t = match &term.kind {
                TerminatorKind::Goto { target } => format!("{{\"k\":\"goto\",\"to\":{}}}", target.as_u32()),
                TerminatorKind::SwitchInt { discr, targets } => {
                    let mut s = format!("{{\"k\":\"switch\",\"d\":{},\"ts\":[", self.operand(discr));
                    for (i, (v, bb)) in targets.iter().enumerate() {
                        if i > 0 {
                            s.push(',');
                        }
                        let _ = write!(s, "[{},{}]", v, bb.as_u32());
                    }
                    let _ = write!(s, "],\"else\":{},\"ln\":{}}}", targets.otherwise().as_u32(), ln);
                    s
                }
                TerminatorKind::UnwindResume => "{\"k\":\"resume\"}".to_string(),
                TerminatorKind::UnwindTerminate(_) => "{\"k\":\"terminate\"}".to_string(),
                TerminatorKind::Return => format!("{{\"k\":\"return\",\"ln\":{}}}", ln),
                TerminatorKind::Unreachable => "{\"k\":\"unreachable\"}".to_string(),
                TerminatorKind::Drop { place, target, unwind, .. } => {
                    let t = place.ty(&body.local_decls, tcx).ty;
                    let glue = if self.form == 'E' || true { self.glue(t) } else { "null".into() };
                    format!(
                        "{{\"k\":\"drop\",\"p\":{},\"ty\":{},\"glue\":{},\"to\":{},\"uw\":{},\"ln\":{}}}",
                        self.place(place),
                        self.ty(t),
                        glue,
                        target.as_u32(),
                        self.unwind(unwind),
                        ln
                    )
                }
                TerminatorKind::Call { func, args, destination, target, unwind, fn_span, .. } => {
                    let mut s = String::from("{\"k\":\"call\",\"f\":");
                    s.push_str(&self.operand(func));
                    if let Operand::Constant(c) = func {
                        if let ty::FnDef(cd, cargs) = c.const_.ty().kind() {
                            if let Some(tr) = tcx.trait_of_assoc(*cd) {
                                let _ = write!(s, ",\"trait\":{}", js(&self.path(tr)));
                            } else if let Some(imp) = tcx.impl_of_assoc(*cd) {
                                let st = tcx.type_of(imp).instantiate_identity().skip_norm_wip();
                                let _ = write!(s, ",\"impl_self\":{}", self.ty(st));
                            }
                            if let Some(r) = self.callee_resolved(*cd, cargs) {
                                let _ = write!(s, ",\"res\":{}", js(&r));
                            }
                        }
                    }
                    s.push_str(",\"a\":[");
                    for (i, a) in args.iter().enumerate() {
                        if i > 0 {
                            s.push(',');
                        }
                        s.push_str(&self.operand(&a.node));
                    }
                    let _ = write!(
                        s,
                        "],\"d\":{},\"to\":{},\"uw\":{},\"ln\":{},\"exp\":{}}}",
                        self.place(destination),
                        target.map(|t| format!("{}", t.as_u32())).unwrap_or("null".into()),
                        self.unwind(unwind),
                        self.line(*fn_span).max(1),
                        exp
                    );
                    s
                }
                TerminatorKind::TailCall { func, args, .. } => {
                    let mut s = String::from("{\"k\":\"tailcall\",\"f\":");
                    s.push_str(&self.operand(func));
                    s.push_str(",\"a\":[");
                    for (i, a) in args.iter().enumerate() {
                        if i > 0 {
                            s.push(',');
                        }
                        s.push_str(&self.operand(&a.node));
                    }
                    let _ = write!(s, "],\"ln\":{}}}", ln);
                    s
                }
                TerminatorKind::Assert { cond, expected, target, unwind, msg } => format!(
                    "{{\"k\":\"assert\",\"cond\":{},\"exp\":{},\"to\":{},\"uw\":{},\"msg\":{},\"ln\":{}}}",
                    self.operand(cond),
                    expected,
                    target.as_u32(),
                    self.unwind(unwind),
                    js(&format!("{:?}", msg).chars().take(60).collect::<String>()),
                    ln
                ),
                TerminatorKind::Yield { value, resume, resume_arg, drop } => format!(
                    "{{\"k\":\"yield\",\"v\":{},\"to\":{},\"ra\":{},\"drop\":{},\"ln\":{}}}",
                    self.operand(value),
                    resume.as_u32(),
                    self.place(resume_arg),
                    drop.map(|d| format!("{}", d.as_u32())).unwrap_or("null".into()),
                    ln
                ),
                TerminatorKind::CoroutineDrop => "{\"k\":\"coroutine_drop\"}".to_string(),
                TerminatorKind::FalseEdge { real_target, imaginary_target } => format!(
                    "{{\"k\":\"false_edge\",\"to\":{},\"imag\":{}}}",
                    real_target.as_u32(),
                    imaginary_target.as_u32()
                ),
                TerminatorKind::FalseUnwind { real_target, unwind } => {
                    format!("{{\"k\":\"false_unwind\",\"to\":{},\"uw\":{}}}", real_target.as_u32(), self.unwind(unwind))
                }
                TerminatorKind::InlineAsm { .. } => "{\"k\":\"asm\"}".to_string(),
            };
            o.push_str(&t);
            o.push('}');
        }
        o.push_str("]}");
        let _: BasicBlock = BasicBlock::from_u32(0);
        let _: Local = Local::from_u32(0);
        o
    }
}

fn capture<'tcx>(
    tcx: TyCtxt<'tcx>,
    def: LocalDefId,
    body: &Body<'tcx>,
    form: char,
    promoted: Option<&IndexVec<Promoted, Body<'tcx>>>,
) {
    if !wanted_crate(tcx) {
        return;
    }
    let kind = tcx.def_kind(def.to_def_id());
    if !matches!(kind, DefKind::Fn | DefKind::AssocFn | DefKind::Closure | DefKind::SyntheticCoroutineBody) {
        return;
    }
    let s = with_resolve_crate_name!(with_no_trimmed_paths!({
        let id = tcx.def_path_str(def.to_def_id());
        let dup = with_store(|st| {
            let set = if form == 'P' { &mut st.seen_p } else { &mut st.seen_e };
            !set.insert(id)
        });
        if dup {
            return;
        }
        let mut ser = Ser { tcx, body, def, form, glue_cache: HashMap::new() };
        let mut s = ser.body_json();
        if let Some(ps) = promoted {
            // append the promoted constant bodies (needed to read constants such as `&Event::Evict`)
            s.pop(); // trailing '}'
            s.push_str(",\"promoted\":[");
            for (i, pb) in ps.iter().enumerate() {
                if i > 0 {
                    s.push(',');
                }
                let mut pser = Ser { tcx, body: pb, def, form, glue_cache: HashMap::new() };
                s.push_str(&pser.body_json());
            }
            s.push_str("]}");
        }
        s
    }));
    with_store(|st| if form == 'P' { st.p.push(s) } else { st.e.push(s) });
}

fn my_promoted<'tcx>(
    tcx: TyCtxt<'tcx>,
    def: LocalDefId,
) -> (&'tcx Steal<Body<'tcx>>, &'tcx Steal<IndexVec<Promoted, Body<'tcx>>>) {
    let r = (ORIG_P.get().unwrap())(tcx, def);
    {
        let body = r.0.borrow();
        let proms = r.1.borrow();
        capture(tcx, def, &body, 'P', Some(&proms));
    }
    r
}

fn my_elaborated<'tcx>(tcx: TyCtxt<'tcx>, def: LocalDefId) -> &'tcx Steal<Body<'tcx>> {
    let r = (ORIG_E.get().unwrap())(tcx, def);
    {
        let body = r.borrow();
        capture(tcx, def, &body, 'E', None);
    }
    r
}

struct Cb;

impl rustc_driver::Callbacks for Cb {
    fn config(&mut self, config: &mut rustc_interface::interface::Config) {
        config.override_queries = Some(|_sess, providers| {
            let _ = ORIG_E.set(providers.queries.mir_drops_elaborated_and_const_checked);
            providers.queries.mir_drops_elaborated_and_const_checked = my_elaborated;
            let _ = ORIG_P.set(providers.queries.mir_promoted);
            providers.queries.mir_promoted = my_promoted;
        });
    }

    fn after_analysis<'tcx>(&mut self, _c: &rustc_interface::interface::Compiler, tcx: TyCtxt<'tcx>) -> Compilation {
        if !wanted_crate(tcx) {
            return Compilation::Continue;
        }
        let krate = tcx.crate_name(LOCAL_CRATE).to_string();
        let Ok(out) = std::env::var("MIRFACTS_OUT") else {
            return Compilation::Continue;
        };
        // force the remaining bodies
        for def in tcx.hir_body_owners() {
            let kind = tcx.def_kind(def.to_def_id());
            if !matches!(kind, DefKind::Fn | DefKind::AssocFn | DefKind::Closure | DefKind::SyntheticCoroutineBody) {
                continue;
            }
            let _ = tcx.mir_drops_elaborated_and_const_checked(def);
        }
        // impl table + ADT table
        let mut impls = String::from("[");
        let mut adts = String::from("[");
        with_resolve_crate_name!(with_no_trimmed_paths!({
            let mut first = true;
            let mut afirst = true;
            for id in tcx.hir_free_items() {
                let did = id.owner_id.to_def_id();
                match tcx.def_kind(did) {
                    DefKind::Impl { .. } => {
                        let self_ty = tcx.type_of(did).instantiate_identity().skip_norm_wip();
                        let tr = tcx.impl_opt_trait_ref(did).map(|t| tcx.def_path_str(t.skip_binder().def_id));
                        if !first {
                            impls.push(',');
                        }
                        first = false;
                        let _ = write!(
                            impls,
                            "{{\"self_ty\":{},\"trait\":{},\"items\":[",
                            js(&format!("{}", self_ty)),
                            tr.map(|s| js(&s)).unwrap_or("null".into())
                        );
                        let mut f2 = true;
                        for it in tcx.associated_items(did).in_definition_order() {
                            if !f2 {
                                impls.push(',');
                            }
                            f2 = false;
                            let _ = write!(
                                impls,
                                "[{},{}]",
                                js(&it.opt_name().map(|n| n.to_string()).unwrap_or_default()),
                                js(&tcx.def_path_str(it.def_id))
                            );
                        }
                        impls.push_str("]}");
                    }
                    DefKind::Struct | DefKind::Enum | DefKind::Union => {
                        let adt = tcx.adt_def(did);
                        if !afirst {
                            adts.push(',');
                        }
                        afirst = false;
                        let _ = write!(adts, "{{\"path\":{},\"variants\":[", js(&tcx.def_path_str(did)));
                        for (i, v) in adt.variants().iter().enumerate() {
                            if i > 0 {
                                adts.push(',');
                            }
                            let _ = write!(adts, "{{\"name\":{},\"fields\":[", js(&v.name.to_string()));
                            for (j, f) in v.fields.iter().enumerate() {
                                if j > 0 {
                                    adts.push(',');
                                }
                                let fty = tcx.type_of(f.did).instantiate_identity().skip_norm_wip();
                                let _ = write!(adts, "[{},{}]", js(&f.name.to_string()), js(&format!("{}", fty)));
                            }
                            adts.push_str("]}");
                        }
                        let _ = write!(adts, "],\"has_drop\":{}}}", tcx.adt_destructor(did).is_some());
                    }
                    _ => {}
                }
            }
        }));
        impls.push(']');
        adts.push(']');
        let feats = std::env::var("MIRFACTS_TAG").unwrap_or_default();
        let mut s = String::new();
        with_store(|st| {
            let _ = write!(
                s,
                "{{\"crate\":{},\"tag\":{},\"rustc\":{},\"types\":[",
                js(&krate),
                js(&feats),
                js(option_env!("CFG_VERSION").unwrap_or("nightly"))
            );
            for (i, t) in st.types.iter().enumerate() {
                if i > 0 {
                    s.push(',');
                }
                s.push_str(&js(t));
            }
            s.push_str("],\"glues\":[");
            s.push_str(&st.glues.join(","));
            s.push_str("],\"P\":[");
            s.push_str(&st.p.join(",\n"));
            s.push_str("],\"E\":[");
            s.push_str(&st.e.join(",\n"));
            let _ = write!(s, "],\"impls\":{},\"adts\":{}}}", impls, adts);
            eprintln!("mirfacts: crate {} P={} E={} types={}", krate, st.p.len(), st.e.len(), st.types.len());
        });
        let path = format!("{}/{}.{}.json", out, krate, std::process::id());
        let tmp = format!("{}.tmp", path);
        std::fs::write(&tmp, s.as_bytes()).expect("write facts");
        std::fs::rename(&tmp, &path).expect("rename facts");
        Compilation::Continue
    }
}

fn main() {
    let mut args: Vec<String> = std::env::args().collect();
    // RUSTC_WORKSPACE_WRAPPER: argv[1] is the path of the real rustc
    if args.len() > 1 && (args[1].ends_with("rustc") || args[1].contains("/rustc")) {
        args.remove(1);
    }
    rustc_driver::run_compiler(&args, &mut Cb);
}
