//! Positive (and negative) examples for the zero-count rules of C16 / C02: analysed on every run with the same driver;
//! each `bad_*` function MUST be reported by its rule and each `good_*` twin must stay silent.  Zero dependencies.
#![allow(dead_code, clippy::all)]
use std::sync::{Mutex, RwLock};

pub mod event {
    pub trait EventListener<K, V>: Send + Sync {
        fn on_leave(&self, key: &K, value: &V);
    }
}

pub struct Shard<K, V> {
    data: Vec<(K, V)>,
    listener: Option<Box<dyn event::EventListener<K, V>>>,
}

pub struct Table {
    ids: Vec<u64>,
}

pub struct Cache<K, V> {
    shard: RwLock<Shard<K, V>>,
    inflights: Mutex<Table>,
}

impl<K, V> Cache<K, V> {
    /// E1: listener invoked while the shard lock is held
    pub fn bad_callback_under_lock(&self) {
        let guard = self.shard.write().unwrap();
        if let (Some(l), Some((k, v))) = (guard.listener.as_ref(), guard.data.first()) {
            l.on_leave(k, v);
        }
    }

    /// twin: the pair is taken out under the lock and the listener runs after the guard is gone
    pub fn good_callback_after_lock(&self, l: &dyn event::EventListener<K, V>) {
        let taken = {
            let mut guard = self.shard.write().unwrap();
            guard.data.pop()
        };
        if let Some((k, v)) = taken {
            l.on_leave(&k, &v);
        }
    }

    /// E5: a key/value pair is destroyed while the shard lock is held (Drop terminator)
    pub fn bad_user_drop_under_lock(&self) {
        let mut guard = self.shard.write().unwrap();
        let victim = guard.data.pop();
        drop_it(victim.is_some());
        // `victim` is dropped here, before `guard`
    }

    /// E5 (call form): the container is cleared under the lock
    pub fn bad_clear_under_lock(&self) {
        let mut guard = self.shard.write().unwrap();
        guard.data.clear();
    }

    /// twin: the victims leave the critical section and die outside
    pub fn good_user_drop_after_lock(&self) {
        let victims = {
            let mut guard = self.shard.write().unwrap();
            std::mem::take(&mut guard.data)
        };
        drop(victims);
    }

    /// E6: shard -> inflights ...
    pub fn bad_order_shard_then_inflights(&self) -> usize {
        let g = self.shard.read().unwrap();
        let t = self.inflights.lock().unwrap();
        g.data.len() + t.ids.len()
    }

    /// ... and inflights -> shard: a cycle in the acquired-while-holding graph
    pub fn bad_order_inflights_then_shard(&self) -> usize {
        let t = self.inflights.lock().unwrap();
        let g = self.shard.read().unwrap();
        g.data.len() + t.ids.len()
    }

    /// E7: a synchronous guard is live across an await
    pub async fn bad_guard_across_await(&self) -> usize {
        let g = self.shard.read().unwrap();
        std::future::ready(()).await;
        g.data.len()
    }

    /// twin: the guard is released before the await
    pub async fn good_guard_released_before_await(&self) -> usize {
        let n = {
            let g = self.shard.read().unwrap();
            g.data.len()
        };
        std::future::ready(()).await;
        n
    }
}

fn drop_it(_b: bool) {}
