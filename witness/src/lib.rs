//! Compile-fail witnesses (with compiling twins) for the type-level part of C18 / C02:
//! a cache entry handle gives shared access only — no safe code can obtain `&mut` to a cached key or value.
//!
//! Run by `./check C18 --tier thorough` with `cargo +nightly test --doc` (the error code is pinned; stable ignores it).
//! Each witness has a twin that differs only by the offending borrow, so that a witness cannot pass merely because a
//! path or type in it is wrong.
//!
//! ## memory cache handle: `&mut *entry` must not type-check
//! ```compile_fail,E0596
//! fn mutate(mut e: foyer::CacheEntry<u64, String>) {
//!     let v: &mut String = &mut *e; // CacheEntry implements Deref only
//!     v.push('x');
//! }
//! ```
//! twin (shared borrow compiles):
//! ```
//! fn read(e: foyer::CacheEntry<u64, String>) -> usize {
//!     let v: &String = &*e;
//!     v.len()
//! }
//! ```
//!
//! ## the accessor `value()` hands out `&V`, never `&mut V`
//! ```compile_fail,E0308
//! fn mutate(e: &mut foyer::CacheEntry<u64, String>) {
//!     let v: &mut String = e.value(); // expected `&mut String`, found `&String`
//!     v.push('x');
//! }
//! ```
//! twin:
//! ```
//! fn read(e: &mut foyer::CacheEntry<u64, String>) -> usize {
//!     let v: &String = e.value();
//!     v.len()
//! }
//! ```
//!
//! ## the key is just as immutable
//! ```compile_fail,E0308
//! fn mutate(e: &mut foyer::CacheEntry<String, u64>) {
//!     let k: &mut String = e.key();
//!     k.push('x');
//! }
//! ```
//! twin:
//! ```
//! fn read(e: &mut foyer::CacheEntry<String, u64>) -> usize {
//!     let k: &String = e.key();
//!     k.len()
//! }
//! ```
