#!/usr/bin/env python3
"""prints the prompt given to an independent sub-agent for property <id> (only the property text + its worktree)"""
import json, sys
pid = sys.argv[1]
wt = sys.argv[2]
avoid = sys.argv[3] if len(sys.argv) > 3 else None
p = [json.loads(l) for l in open('/verif/properties.jsonl') if json.loads(l)['id'] == pid][0]
print(f"""You are testing how well a semantic property of a Rust code base is protected. You work ONLY inside the git worktree {wt} (a scratch checkout of the foyer hybrid-cache repository, foyer-rs/foyer). Do not read or write anything under /verif or /repo, and do not use the network (there is none; always pass --offline to cargo and set CARGO_NET_OFFLINE=true). Use your own build directory: export CARGO_TARGET_DIR={wt}/target for every cargo command.

The property (id {pid}): {p['title']}
Statement: {p['statement']}
Quantified over: {p['quantifier']['text']}
Why the existing tests cannot settle it: {p['why_tests_cant']}
Code the property is anchored in: {json.dumps(p['anchors'], indent=1)}

Your task: produce ONE realistic change to the library source of foyer (the kind of slip a maintainer could make in a refactor or "optimisation": a dropped or weakened check, a reordered pair of operations, a wrong operand, a missing update at one of several sibling sites, an off-by-one in a comparison, an early return that skips a step ...) such that
 1. the code still compiles and the WHOLE existing test suite still passes (`cargo test --workspace --no-fail-fast --offline` in {wt}; run it, it takes a few minutes),
 2. the property above is broken, and
 3. the breakage needs something specific to manifest - a particular interleaving, a crash or fault at a particular point, a multi-step sequence of operations, an unusual input (hash collision, weight 0, huge entry, ...), or two cooperating sites that each look fine alone - NOT something ordinary use would expose at once.
{("An earlier attempt already produced this change, so yours must be different in kind and touch a different function: " + avoid + chr(10)) if avoid else ""}Do not touch tests, Cargo files or public API signatures in the change itself; keep it small (ideally under 15 changed lines) and plausible. Avoid changes that merely panic or fail to compile.

Then write a demonstration: a new test (an integration test file or a #[cfg(test)] test added in a separate patch) or small program that FAILS with your change applied and PASSES on the unmodified code. It may use the crates' `test_utils` features and loops / many trials if the failure is schedule dependent, but should finish within about two minutes. Verify both directions yourself.

Deliver, in the directory {wt}/_out/ :
  - patch.diff   : `git diff` of ONLY the library change (must apply with `git apply` to a clean checkout of the same commit),
  - demo.diff    : `git diff` (or new files as a diff) adding ONLY the demonstration, applying cleanly on the clean checkout AND on top of patch.diff,
  - notes.md     : which clause of the property breaks, what exact scenario is needed for it to manifest, the command that runs the demonstration, and the observed output with and without the change, and the result of the full test suite with the change.
Leave the worktree clean of build output you do not need except {wt}/target (it will be deleted for you). When done, reply with a short summary (the idea of the change, file/function touched, how the demo is run, pass/fail both ways, full-suite result)."""
)
