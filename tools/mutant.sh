#!/bin/bash
# tools/mutant.sh <patch.diff | revert:<sha>> <prop> [<prop>...]
# Applies a change to a scratch worktree of /repo (never to /repo itself), runs the given checks against it and
# removes the worktree and its scratch output again.  Exit status: 0 if at least one check reported a VIOLATION.
set -u
CHANGE="$1"; shift
case "$CHANGE" in revert:*) ;; /*) ;; *) CHANGE="$(pwd)/$CHANGE" ;; esac
SCR=$(mktemp -d /var/tmp/verif-mut.XXXXXX)
WT="$SCR/wt"
cleanup() { git -C /repo worktree remove --force "$WT" >/dev/null 2>&1; rm -rf "$SCR"; git -C /repo worktree prune; }
trap cleanup EXIT
git -C /repo worktree add --detach "$WT" HEAD >/dev/null 2>&1 || { echo "cannot create worktree"; exit 3; }
case "$CHANGE" in
  revert:*) git -C "$WT" revert --no-commit "${CHANGE#revert:}" >/dev/null 2>&1 || { echo "revert failed"; exit 3; } ;;
  *) git -C "$WT" apply "$CHANGE" || { echo "patch does not apply"; exit 3; } ;;
esac
hit=1
for p in "$@"; do
  out=$(cd /verif && VERIF_REPO="$WT" VERIF_WORK="$SCR/work" VERIF_EVIDENCE_DIR="$SCR/evidence" ./check "$p" 2>&1)
  echo "$out" | grep -E "^VIOLATION|^    (rule|at|[a-z])|^KNOWN|^C[0-9]+:|^check:|dump:" | cut -c1-400
  echo "$out" | grep -q "^VIOLATION" && hit=0
done
exit $hit
