# claims table (exec'd by gen_manifest.py)
claim("C11", "MIR alias/provenance slice + dominance rules (custom rustc_private driver)",
      "Decides on every path of InflightManager::{enqueue,take,fetch_or_take} and RawFetch::poll that (a) the close flag in the in-flight "
      "table and the one given to the fetch task are one allocation, (b) taking the in-flight entry sets it before the waiters are handed "
      "out, (c) both fetch polls are dominated by a test of the flag whose true edge returns without inserting. Necessary conditions of the "
      "property for every schedule; the residual same-poll race is not decided.", "DESIGN.md §4 C11")
