# claims table (exec'd by gen_manifest.py)
claim("C11", "MIR alias/provenance slice + dominance rules (custom rustc_private driver)",
      "Decides on every path of InflightManager::{enqueue,take,fetch_or_take} and RawFetch::poll that (a) the close flag in the in-flight "
      "table and the one given to the fetch task are one allocation, (b) taking the in-flight entry sets it before the waiters are handed "
      "out, (c) both fetch polls are dominated by a test of the flag whose true edge returns without inserting. Necessary conditions of the "
      "property for every schedule; the residual same-poll race is not decided.", "DESIGN.md §4 C11")
claim("C05", "MIR path rules: must-pass-through pairing of index mutations with usage/entries updates, comparison decision table, who-may-write",
      "Decides on every path of every RawCacheShard method that each Indexer::{remove,insert,drain} is matched by the usage and entries "
      "updates the property needs (right sign, right record's weight), that only shard methods write those fields, that the eviction loop "
      "pops exactly while usage > target (3-row ordering table), that emplace evicts to capacity-weight(new) before inserting, that resize "
      "stores and evicts to the same value, and that an entry's weight is computed once. Numerical exactness over histories is not decided.",
      "DESIGN.md §4 C05")
claim("C18", "MIR ownership (forward move-flow) + who-may-call/write rules + comparison table",
      "Decides that every reference-count increment handed out of the shard lock is moved into a RawCacheEntry (whose Drop decrements exactly "
      "once and releases only at zero), that emplace counts one reference per waiter plus one, that LRU pop never reads the pin list while "
      "acquire/release/clear maintain it, that is_outdated is the negated in-indexer flag written only by the Sentry wrapper, and that no code "
      "path writes or mutably borrows Record.data. Capacity re-establishment over sequences is not decided.", "DESIGN.md §4 C18")
claim("C10", "MIR dependence slice with induction-value roots + async-aware dominance/must-pass rules + codec extraction",
      "Decides that the append position recovered by TombstoneLog::open depends on partition base, page offset and in-page slot of the newest "
      "tombstone (data-dependence slice whose roots are the scan loops' Iterator::next values), that append writes at slot_addr(tail), advances "
      "the tail per tombstone, flushes the old page (error propagated) before loading another and flushes before returning with the result "
      "returned, and that Tombstone::write/read agree field by field. Log wrap-around and crash atomicity are not decided.", "DESIGN.md §4 C10")
claim("C12", "MIR control-dependence rules over `x == Variant` atoms (match and PartialEq forms) + must-pass rules",
      "Decides that every Store::enqueue call in the hybrid layer is reachable only across an edge establishing location != InMem for the "
      "entry written (sibling agreement of Pipe::send / Pipe::flush / insert_with_properties / post-fetch), that insert-time and post-fetch "
      "writes are control-dependent on policy == WriteOnInsertion and the eviction pipe on (real store, WriteOnEviction), that the post-fetch "
      "write is control-dependent on source() == Outer, that Age::Young returns before sequence allocation and submit, and that filter "
      "rejection / OnDisk advice produce a phantom whose last drop pipes it and skips release. Counting device writes is not decided.",
      "DESIGN.md §4 C12")
claim("C17", "MIR closure-body rules on every hashbrown probe + control-dependence of disk hits on key equality",
      "Decides for all 9 hash-table probe sites (memory index, in-flight table, write-queue keeper) that the equality closure compares the "
      "probed element's key with the looked-up key and the rehash closure returns the stored hash; that every disk hit rebuilt in Store::load "
      "is control-dependent on key.equivalent(loaded key) with the loaded payload coming from the engine; and that each memory operation "
      "hashes once and uses that hash for shard choice. Behaviour over histories with restarts is not decided.", "DESIGN.md §4 C17")
claim("C01", "MIR ordering/dominance rules, comparison decision tables over sequences, ownership flow, identity-predicate discovery",
      "Decides ten structural clauses: lookup order keeper->engine, key-equality guard on every disk hit, the (older,equal,newer) tables of the "
      "index (insert_inner, remove_batch) and of recovery (dedup, regression stop), synchronous tombstone with the logged sequence, index update "
      "control-dependent on successful writes and before the write-queue references are released, keeper removal guarded by record identity, "
      "reject-deletes, counter restart strictly above every recovered entry and tombstone, phantom replace, both tiers on remove/clear. "
      "Sufficiency of these under all interleavings is not decided.", "DESIGN.md §4 C01")
claim("C02", "whole-program lock-region analysis (must-held contexts) + who-may-call + atomic-ordering table + dispatcher sibling agreement",
      "Decides that every index/eviction mutation in the memory cache runs with the shard write lock held on every call path, reads under a "
      "shard lock, no lock-bypass API is used; bodies that can run under the shared lock perform no plain UnsafeCell stores or list operations; "
      "reference counts are incremented inside the critical section; refs/flag atomics use at least AcqRel/Release/Acquire; flags are written only "
      "by their owners; all 30 five-way dispatchers forward to the same method. Linearizability of histories is not decided.", "DESIGN.md §4 C02")
claim("C06", "lock-region must-analysis + ownership flow of waiter vectors + variant tables with constant propagation + comparison tables",
      "Decides that probe+registration and publication+waiter-take each happen in one shard critical section (the latter under the write lock), "
      "that every vector of waiters taken from the in-flight table ends in sends, the leader/waiter arms of enqueue, removal by leader id only on "
      "equality, that error/cancel paths reach no insert, that the origin fetch builder runs only in try_set_required and not after a disk hit, "
      "and — per RawFetchState variant — that a dropped task still owning the entry takes it by id and answers. Liveness is not decided.",
      "DESIGN.md §4 C06")
claim("C16", "whole-program lock-region / effect analysis over E-form MIR (exact drops) with drop-glue summaries, lock-order graph, yield check",
      "The property is static; decided up to call-graph precision: no listener/weighter/filter/pipe call and no drop of a value owning a key or "
      "value (Drop terminators, mem::drop, clearing container calls) while any foyer lock class may be held (11 one-construct allow-list entries "
      "with the co-owner, 3 structural refinements), acyclic acquired-while-holding graph (1 hierarchical exception), no synchronous guard across "
      "an await. Foreign dyn callbacks and opaque fetch-closure destructors are reported as observations.", "DESIGN.md §4 C16")
claim("C03", "MIR dominance / control-dependence rules, comparison tables, enum switch tables, argument provenance",
      "Decides that the range test and (when requested) the checksum comparison dominate value/key decoding and the unequal edge returns "
      "ChecksumMismatch; that the block engine unconditionally passes Some(header.checksum), lengths and tag of the header it read from the same "
      "buffer; that a header needs matching magic and a valid tag (tag tables inverse, others rejected); that the blob index is used only after "
      "its checksum matched; that each corruption error kind maps to `remove index entry + miss`; the recover-mode table; the key guard. "
      "Panic-freedom under arbitrary bytes is not decided.", "DESIGN.md §4 C03")
claim("C13", "who-may-call rules, `event == Evict` control-dependence atoms, constant tables per leave path, ownership flow of records leaving the index, sibling agreement",
      "Decides that Pipe::send/flush are called only from the capacity-eviction paths, that piping is control-dependent on event == Evict and "
      "flush pipes evict() garbage only (tagged Evict), the Replace/Remove/Clear/Evict constants of every leave path, that every record taken "
      "out of the index is queued with an event or returned, and that the garbage-draining siblings agree and run outside the shard lock. "
      "Exactly-once over histories is not decided.", "DESIGN.md §4 C13")
claim("C15", "async-aware ordering rules (await points), control-dependence on flags, must-pass loops, sibling agreement of close paths",
      "Decides that close sets the closed flag first and a second close is a no-op, that memory is flushed iff flush_on_close and the close "
      "future is polled only after the flush future completed, that flush evicts every shard to zero and every evicted record reaches the pipe, "
      "which drains pending writes first and enqueues all but in-memory-only pieces, that the engine tests `active` before allocating or "
      "submitting and close deactivates then waits, and that Drop and close() run the same close_inner with the cache's own fields. "
      "Capacity of the flush buffer and reopen contents are not decided.", "DESIGN.md §4 C15")
claim("C09", "typestate transitions as must-pass / exclusivity rules under the lock analysis, async-aware ordering, queue-end tables, affine normal forms",
      "Decides that the block sets are mutated only by the manager's transition functions under the State lock, with the prescribed moves "
      "(clean->writing or waiter queued; writing->evictable; evictable->reclaiming + exactly one reclaim task; reclaiming->exactly one of "
      "{parked writer, clean queue}) and that every transition re-evaluates reclaim_if_needed on every path; that Drop of the reclaiming handle "
      "returns the block and reclaim removes index entries, then completes cleaning, then releases; FIFO queue ends; re-insertions keep hash, "
      "length and sequence and are skipped for keys that left the index; only blocks other than the batch's last are finished (affine form of "
      "the index test). Liveness beyond re-arming is not decided.", "DESIGN.md §4 C09")
claim("C07", "codec extraction (writer/reader tables), affine normal forms with memory-aware store resolution, sibling agreement, comparison tables",
      "Decides that every on-disk record's writer and reader agree on order, width and byte range (entry header, blob index entry, blob index "
      "seal/read, tombstone); that flusher and scanner compute addresses as blob start + index.offset with len/sequence from the index; that "
      "alignment is asserted and buffer / scanner advance by aligned lengths; and — as affine forms over the splitter context — that split_blob "
      "and seal_blob advance the blob start by blob start + part offset + part size, reset or continue the part offset, emit parts at the entry "
      "state, record entry offsets as part offset + bytes so far, and start a new block exactly when the entry end exceeds the block size. "
      "Non-overlap over all batch sequences is not decided.", "DESIGN.md §4 C07")
claim("C08", "sibling agreement of encoder/decoder pairs (endianness, width, order), enum arm tables, error-propagation flow, wrapper delegation rule, dominance and affine forms",
      "Decides for all 14 numeric Code impls, bool, Vec<u8>, String and Bytes that encode and decode use the same endianness, width, prefix "
      "type and order with exact-length primitives and typed error conversion; that the serializer and deserializer use the same codec family "
      "per compression tag; that no Result in the serializer is dropped and no drop-finishing adaptor is used; that the length-tracking writer "
      "forwards each io::Write method like-for-like and counts on success only; that Buffer::push records an entry only over the Ok edge of "
      "serialize and within max_entry_size (push_slice tests sizes before copying); that the header carries the serializer's lengths, the payload "
      "checksum and the caller's metadata; WriteZero -> BufferSizeLimit. Codec correctness and value equality are not decided.", "DESIGN.md §4 C08")
claim("C04", "async-aware ordering rules on the write task (await points, `?` edges), who-may-call rules, recovery decision tables, affine forms",
      "Decides that per blob the index page is polled only over the success edge of the data write and both results are propagated, at the "
      "offsets blob start / blob start + part offset of the same block; that the in-memory index is updated only after the block's writes "
      "succeeded; that tombstones are appended (error propagated) in the single io task of their batch and that flush acknowledgement and marker "
      "removal happen only in handle_io_complete, called from the one completion site; plus the recovery tables (highest sequence wins, regression "
      "stops the block, counter restarts strictly above everything, damaged index ends the scan, recover-mode table) and the reclaim order. "
      "Crash points and torn writes are not enumerated; durability of the device is outside the code.", "DESIGN.md §4 C04")
claim("C14", "queue-end tables per algorithm and operation, comparison decision tables, enum/boolean arm tables, sibling pairing of pool-growth sites",
      "Decides for FIFO, LRU, S3-FIFO, SIEVE and w-TinyLFU which end of which intrusive list each operation uses and the comparisons the "
      "published rules fix: LRU hint routing, low-priority-first, never the pin list, pool overflow exactly when over the share and re-run at "
      "every growth site; S3-FIFO ghost routing, small-first when over share, promote at freq >= threshold else evict + ghost, main re-insertion "
      "while freq > 0, saturation; SIEVE visited-bit table and hand := successor; w-TinyLFU window overflow, head-to-head sketch comparison "
      "(window evicted only when strictly colder) and the access table. The emergent victim sequence is not decided.", "DESIGN.md §4 C14")

# clauses added after the first pass (round-2 seeds and the systematic sweeps): appended to the texts above
_MORE = {
    "C01": " Added: the regression guard compares with a value carried across blobs; the write queue registers a piece on both table arms and accepted entries keep their reference until the batch io completes; clear() awaits queued writes, clears every index shard and wipes every block; single-step must-call obligations (recovery dedup, Engine forwarding, flusher receive points).",
    "C03": " Added: error discipline — the Result of every device read / write of the block engine and the tombstone log is ?-propagated, matched or handed on.",
    "C04": " Added: tombstone tail/slot/append incl. whole-batch append; the same error discipline on device calls; must-call obligations (index insertion of a new hash, recovery installs the rebuilt index and every scanned entry / tombstone reaches the dedup table).",
    "C05": " Added: index <-> eviction-container pairing (a record leaving the index is unlinked when flagged in-eviction, an indexed record is pushed, clear clears both); resize target as an affine equality; the capacity split has exactly the shape total/shards + (index < total%shards); HashTableIndexer::insert arms.",
    "C06": " Added: id freshness of in-flight entries (counter advanced by a non-zero step, shared by table entry and leader); a superseded fetch abandons in both states; a finished fetch inserts its value.",
    "C07": " Added: scan stops at stale / damaged blobs; BlobIndex::write places at slot `count` and advances it by one; must-call obligations for header / index / data writes into the flusher buffer, blob parts joining the batch, index resets.",
    "C08": " Added: decision table of the decode length test (guards every slice); push / push_slice agree on the size limit; bool decode reads the byte it tests; length-prefixed decode buffers are sized from the prefix and read errors are propagated; serialize_key encodes the key.",
    "C09": " Added: re-insertion accepts exactly the sizes insertion accepts; taken eviction pickers are restored on every path; init partitions blocks into clean and evictable.",
    "C10": " Added: page -> partition resolution table (PageBuffer::locate); recovered tombstones are returned; the tail page is loaded on open.",
    "C11": " Added: every hash-table probe of the in-flight table compares full keys; an insert answers the waiters it takes with the inserted record on every path of emplace.",
    "C12": " Added: a throttled disk lookup is remembered before the origin fetch; probation marks are reset with every other per-generation statistic (reclaim and destroy); who-may-guard: every condition guarding a Store::enqueue of the hybrid layer is one of the prescribed kinds, so admitted entries do reach the disk tier; who-may-write for the engine's `active` flag and the probation mark.",
    "C13": " Added: every body that fills a garbage list (found by type: insert_inner, evict_all, resize, flush) notifies the listener per element and offers the list to the pipe; clear() and the cache's Drop reach RawCacheShard::clear of every shard.",
    "C14": " Added: S3-FIFO ghost queue (affine overflow test incl. helper translation, termination, state pairing); in-eviction flag discipline of all five algorithms; remove unlinks from the tagged queue; lookups feed frequency / visited bit / sketch; resize reaches every derived capacity; per-path and per-record accounting of queue weights and tags in S3-FIFO and w-TinyLFU; frequency steps by exactly one; the newcomer is linked before its queue's overflow test (LFU window, LRU pool).",
    "C15": " Added: the submit-queue admission counter is released for every received entry by the amount added (paired accounting, must-pass) and the gate drops only above the threshold; BlockEngine::wait awaits a Wait round-trip through every flusher and the reclaimers; waiters are answered only on io completion; both receive points of the runner hand submissions to recv; close waits unconditionally; flush runs exactly when flush_on_close is set; Drop spawns the graceful close unconditionally and only close_inner writes the closed flag; who-may-guard the disk write of a flushed entry; who-may-write the `active` flag.",
    "C18": " Added: from refs==0 every non-phantom path reaches the release operator and each operator arm runs its closure; emplace's count is exactly waiters+1 (affine normal form); one strong count per Piece (taken over in new, added in clone, returned once by drop or into_record); every returned record is counted and every notified waiter gets a handle (must-pass); the Sentry flag writes are unconditional.",
}
for _p, _t in _MORE.items():
    if _p in CLAIMED:
        CLAIMED[_p] = (CLAIMED[_p][0], CLAIMED[_p][1] + _t, CLAIMED[_p][2])
