#!/bin/bash
# tools/confirm_seed.sh <id> '<demo command run inside the worktree>'
# Confirms a seeded change independently: demo passes on the clean tree, fails with the patch; the 101 baseline tests pass with the patch.
# Works in a scratch worktree of /repo HEAD under /tmp/confirm (removed afterwards); writes seeded/<id>/confirm.log and meta fragments.
set -u
ID="$1"; DEMO="$2"
S=/verif/seeded/$ID
WT=/tmp/confirm/$ID
export CARGO_TARGET_DIR=/tmp/confirm/target CARGO_NET_OFFLINE=true
mkdir -p /tmp/confirm
git -C /repo worktree remove --force "$WT" >/dev/null 2>&1
git -C /repo worktree add --detach "$WT" HEAD >/dev/null 2>&1 || { echo "worktree failed"; exit 3; }
trap 'git -C /repo worktree remove --force "$WT" >/dev/null 2>&1; git -C /repo worktree prune' EXIT
cd "$WT"
LOG=$S/confirm.log; : > $LOG
echo "base commit: $(git rev-parse --short HEAD)" | tee -a $LOG
git apply "$S/demo.diff" || { echo "demo.diff does not apply" | tee -a $LOG; exit 3; }
echo "== demo on clean tree" | tee -a $LOG
( eval "$DEMO" ) >> $LOG 2>&1; R1=$?
echo "demo_clean_exit=$R1" | tee -a $LOG
git apply "$S/patch.diff" || { echo "patch.diff does not apply" | tee -a $LOG; exit 3; }
echo "== demo with patch" | tee -a $LOG
( eval "$DEMO" ) >> $LOG 2>&1; R2=$?
echo "demo_patched_exit=$R2" | tee -a $LOG
# baseline with patch only (demo removed)
git apply -R "$S/demo.diff"
echo "== baseline suite with patch" | tee -a $LOG
cargo nextest run --workspace --no-fail-fast --tool-config-file pb:/w/lib/nextest.toml --profile pb --test-threads 8 --offline 2>&1 | tail -4 | tee -a $LOG
grep -q "101 passed" $LOG && R3=0 || R3=1
echo "baseline_with_patch_ok=$((1-R3))" | tee -a $LOG
if [ $R1 -eq 0 ] && [ $R2 -ne 0 ] && [ $R3 -eq 0 ]; then echo "CONFIRMED" | tee -a $LOG; else echo "NOT CONFIRMED" | tee -a $LOG; fi
