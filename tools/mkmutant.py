#!/usr/bin/env python3
"""tools/mkmutant.py <name> <file relative to /repo> <expect: 'Cxx Cxx.rule'>  (old text on stdin up to a line '=====' then new text)
creates mutants/<name>.diff from a textual replacement applied to a scratch copy (never touches /repo)"""
import subprocess, sys, os, tempfile, shutil
name, rel, expect = sys.argv[1], sys.argv[2], sys.argv[3]
old, new = sys.stdin.read().split("\n=====\n")
new = new.rstrip("\n")
old = old.rstrip("\n")
src = open(os.path.join("/repo", rel)).read()
if src.count(old) != 1:
    sys.exit("%s: old text occurs %d times" % (name, src.count(old)))
d = tempfile.mkdtemp()
try:
    a = os.path.join(d, "a", rel); b = os.path.join(d, "b", rel)
    os.makedirs(os.path.dirname(a)); os.makedirs(os.path.dirname(b))
    open(a, "w").write(src); open(b, "w").write(src.replace(old, new))
    p = subprocess.run(["diff", "-u", "a/" + rel, "b/" + rel], cwd=d, stdout=subprocess.PIPE, text=True)
    out = p.stdout
    open("/verif/mutants/%s.diff" % name, "w").write(out)
    open("/verif/mutants/%s.expect" % name, "w").write(expect + "\n")
    print("wrote", name, len(out.splitlines()), "lines")
finally:
    shutil.rmtree(d)
