#!/bin/sh
# runs all 18 quick checks on the current /repo tree; exit 1 if any reports a violation (use before committing rule changes)
cd "$(dirname "$0")/.."
bad=0
for p in C01 C02 C03 C04 C05 C06 C07 C08 C09 C10 C11 C12 C13 C14 C15 C16 C17 C18; do
  out=$(./check $p 2>&1); echo "$out" | tail -1
  echo "$out" | grep -q "^VIOLATION" && { bad=1; echo "$out" | grep -A3 "^VIOLATION" | cut -c1-300; }
done
exit $bad
