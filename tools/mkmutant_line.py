#!/usr/bin/env python3
"""tools/mkmutant_line.py <name> <file relative to /repo> <line> '<new line text (indent kept)>' '<expect>'  — one-line replacement by line number (for text that occurs more than once)"""
import subprocess, sys, os, tempfile, shutil
name, rel, line, new, expect = sys.argv[1], sys.argv[2], int(sys.argv[3]), sys.argv[4], sys.argv[5]
src = open(os.path.join("/repo", rel)).read().split("\n")
old = src[line - 1]
src2 = list(src)
src2[line - 1] = old[:len(old) - len(old.lstrip())] + new
d = tempfile.mkdtemp()
try:
    a = os.path.join(d, "a", rel); b = os.path.join(d, "b", rel)
    os.makedirs(os.path.dirname(a)); os.makedirs(os.path.dirname(b))
    open(a, "w").write("\n".join(src)); open(b, "w").write("\n".join(src2))
    out = subprocess.run(["diff", "-u", "a/" + rel, "b/" + rel], cwd=d, stdout=subprocess.PIPE, text=True).stdout
    open("/verif/mutants/%s.diff" % name, "w").write(out)
    open("/verif/mutants/%s.expect" % name, "w").write(expect + "\n")
    print("wrote", name, "replacing:", old.strip())
finally:
    shutil.rmtree(d)
