#!/usr/bin/env python3
"""tools/sweep.py <kind> [jobs] — systematic one-token variants of /repo's library source, each analysed by ALL 18 quick checks (development aid:
finds rule gaps; its output is triaged by hand into notes/sweep_<kind>.md — it is not part of any registered check).
kinds:  cmp   every ordering comparison that reaches MIR as a switch: `<`<->`<=`, `>`<->`>=`
Scratch copies live under /var/tmp and are removed; /repo is never touched."""
import json, os, queue, re, shutil, subprocess, sys, tempfile
from concurrent.futures import ThreadPoolExecutor
sys.path.insert(0, os.path.dirname(os.path.dirname(os.path.abspath(__file__))))
VERIF = os.path.dirname(os.path.dirname(os.path.abspath(__file__)))
REPO = "/repo"
PROPS = ["C%02d" % i for i in range(1, 19)]


def lib_fns(F):
    for f in F.all_fns("P"):
        if not f.crate.name.startswith("foyer"):
            continue
        if "/tests/" in f.file or "test_utils" in f.file or "::tests::" in f.short or "bench" in f.file or "::test_utils::" in f.short:
            continue
        yield f


def cmp_sites():
    from sa import mir, tables
    F = mir.Facts("default")
    lines = set()
    for f in lib_fns(F):
        for c in tables.comparisons(f):
            if c.op in ("Lt", "Le", "Gt", "Ge"):
                lines.add((f.file, c.stmt.ln, f.short))
    out = []
    seen = set()
    swap = {"<": "<=", "<=": "<", ">": ">=", ">=": ">"}
    for (file, ln, fn) in sorted(lines):
        src = open(os.path.join(REPO, file)).read().split("\n")
        for l in range(ln, min(ln + 3, len(src) + 1)):
            text = src[l - 1]
            ms = [m for m in re.finditer(r"(?<=\s)(<=|>=|<|>)(?=\s)", text) if "->" not in text[max(0, m.start() - 1):m.end()]]
            for k, m in enumerate(ms):
                if (file, l, k) in seen:
                    continue
                seen.add((file, l, k))
                new = text[:m.start()] + swap[m.group(1)] + text[m.end():]
                out.append({"name": "%s:%d#%d" % (file, l, k), "file": file, "line": l, "old": text, "new": new, "fn": fn})
            if ms:
                break
    return out


SLOTS = queue.Queue()


DEL_SKIP = re.compile(r"^\s*(let |return|break|continue|//|tracing::|assert|debug_assert|strict_assert|#\[|\}|\.)|metrics|\.record\(|\.increase\(|\.decrease\(|Instant::|tracing|trace!|fastrace|LocalSpan|println!|panic!|write!|writeln!|de\.field")
DEL_FILES = re.compile(r"^(foyer-memory/src/(raw|inflight|pipe|record|eviction/|indexer/)|foyer-storage/src/(engine/block/|keeper|store|serde|filter)|foyer/src/hybrid/|foyer-common/src/code)")


def del_sites():
    """every single-line call statement of the anchored files whose value is discarded: the variant deletes the statement"""
    from sa import mir
    F = mir.Facts("default")
    lines = {}
    for f in lib_fns(F):
        if f.file.startswith("/") or not DEL_FILES.search(f.file):
            continue
        for b in f.blocks:
            if not b.cleanup and b.term.k == "call":
                lines.setdefault((f.file, b.term.ln), f.short)
    out = []
    for (file, ln), fn in sorted(lines.items()):
        src = open(os.path.join(REPO, file)).read().split("\n")
        if ln > len(src):
            continue
        t = src[ln - 1]
        s = t.strip()
        if not s.endswith(";") or DEL_SKIP.search(t) or s.count("(") != s.count(")") or s.count("{") != s.count("}"):
            continue
        if re.search(r"[^=!<>]=[^=]", s) and not re.search(r"\|[^|]*=", s):
            continue
        out.append({"name": "%s:%d" % (file, ln), "file": file, "line": ln, "old": t, "new": t[:len(t) - len(t.lstrip())] + "// " + s, "fn": fn})
    return out


def cond_sites():
    """the statements whose deletion IS detected, made conditional on an opaque flag (`if black_box(true) { stmt }`): behaviour is unchanged, but a rule that only
    establishes that the call exists stays silent while one that establishes it on every path fires.  Silent variants therefore list the existence-only rules."""
    det = set()
    for fn in ("sweep_del.json", "sweep_del.part.json"):
        pth = os.path.join(VERIF, "notes", fn)
        if os.path.exists(pth):
            det |= {x["name"] for x in json.load(open(pth)) if x["status"] == "detected"}
    out = []
    for s_ in del_sites():
        if s_["name"] in det:
            t = s_["old"]
            ind = t[:len(t) - len(t.lstrip())]
            out.append(dict(s_, new=ind + "if std::hint::black_box(true) { " + t.strip() + " }"))
    return out


def eq_sites():
    """every `==` / `!=` of the anchored files that reaches MIR as an Eq/Ne switch or a PartialEq call: flipped"""
    from sa import mir, tables
    F = mir.Facts("default")
    lines = {}
    for f in lib_fns(F):
        if f.file.startswith("/") or not DEL_FILES.search(f.file):
            continue
        for c in tables.comparisons(f):
            if c.op in ("Eq", "Ne"):
                lines.setdefault((f.file, c.stmt.ln), f.short)
        for b in f.calls_to(r"cmp::PartialEq::(eq|ne)$|cmp::PartialEq<.*>>::(eq|ne)$"):
            lines.setdefault((f.file, b.term.ln), f.short)
    out = []
    for (file, ln), fn in sorted(lines.items()):
        src = open(os.path.join(REPO, file)).read().split("\n")
        if not ln or ln > len(src):
            continue
        t = src[ln - 1]
        if re.search(r"assert|tracing|metrics|trace!|^\s*//", t):
            continue
        for k, m in enumerate(re.finditer(r"(?<=\s)(==|!=)(?=\s)", t)):
            out.append({"name": "%s:%d#%d" % (file, ln, k), "file": file, "line": ln, "old": t, "new": t[:m.start()] + ("!=" if m.group(1) == "==" else "==") + t[m.end():], "fn": fn})
    return out


def one_sites():
    """every `+ 1` / `- 1` / `+= 1` / `-= 1` of the library that reaches MIR as an Add/Sub with the constant 1: the 1 becomes 0"""
    from sa import mir
    F = mir.Facts("default")
    lines = {}
    for f in lib_fns(F):
        if f.file.startswith("/"):
            continue
        for b in f.blocks:
            if b.cleanup:
                continue
            for st in b.stmts:
                if st.k == "assign" and st.rv.k == "bin" and st.rv.op.startswith(("Add", "Sub")) and any(o.is_const() and o.const_val() == 1 for o in st.rv.ops):
                    lines.setdefault((f.file, st.ln), f.short)
    out = []
    for (file, ln), fn in sorted(lines.items()):
        src = open(os.path.join(REPO, file)).read().split("\n")
        if not ln or ln > len(src):
            continue
        t = src[ln - 1]
        if re.search(r"metrics|tracing|trace!|^\s*//", t):
            continue
        for k, m in enumerate(re.finditer(r"([+-]=?) 1\b(?!\.)", t)):
            out.append({"name": "%s:%d#%d" % (file, ln, k), "file": file, "line": ln, "old": t, "new": t[:m.start()] + m.group(1) + " 0" + t[m.end():], "fn": fn})
    return out


def run_variant(v):
    scr = tempfile.mkdtemp(prefix="verif-sweep.", dir="/var/tmp")
    wt = os.path.join(scr, "wt")
    slot = SLOTS.get()
    try:
        os.makedirs(wt)
        for f in subprocess.check_output(["git", "-C", REPO, "ls-files"], text=True).split("\n"):
            if f and os.path.isfile(os.path.join(REPO, f)):
                dst = os.path.join(wt, f)
                os.makedirs(os.path.dirname(dst), exist_ok=True)
                shutil.copy2(os.path.join(REPO, f), dst)
        p = os.path.join(wt, v["file"])
        src = open(p).read().split("\n")
        assert src[v["line"] - 1] == v["old"]
        src[v["line"] - 1] = v["new"]
        open(p, "w").write("\n".join(src))
        env = dict(os.environ, VERIF_REPO=wt, VERIF_WORK=os.path.join(scr, "work"), VERIF_EVIDENCE_DIR=os.path.join(scr, "evidence"), VERIF_TIER="quick")
        if slot:
            env["VERIF_TARGET_BASE"] = "/var/tmp/verif-sweep-target-%d" % slot   # own cargo target dir per slot: cargo runs in parallel across slots
        first = subprocess.run([os.path.join(VERIF, "check"), PROPS[0]], cwd=VERIF, env=env, stdout=subprocess.PIPE, stderr=subprocess.STDOUT, text=True).stdout
        if "cannot analyse" in first or "does not build" in first:
            return dict(v, status="nobuild", hits=[])
        outs = [first]
        with ThreadPoolExecutor(max_workers=6) as ex:
            outs += list(ex.map(lambda pr: subprocess.run([os.path.join(VERIF, "check"), pr], cwd=VERIF, env=env, stdout=subprocess.PIPE, stderr=subprocess.STDOUT, text=True).stdout, PROPS[1:]))
        hits = sorted(set(re.findall(r"rule (C\d\d\.[\w.-]+):", "\n".join(outs))))
        return dict(v, status="detected" if hits else "silent", hits=hits)
    finally:
        SLOTS.put(slot)
        shutil.rmtree(scr, ignore_errors=True)


if __name__ == "__main__":
    kind = sys.argv[1]
    jobs = int(sys.argv[2]) if len(sys.argv) > 2 else 2
    for i in range(jobs):
        SLOTS.put(i)          # slot 0 shares /verif/.work/target
    sites = {"cmp": cmp_sites, "del": del_sites, "one": one_sites, "cond": cond_sites, "eq": eq_sites}[kind]()
    if len(sys.argv) > 3 and sys.argv[3].startswith("@"):
        want = set(open(sys.argv[3][1:]).read().split("\n"))
        sites = [s for s in sites if s["name"] in want]
    elif len(sys.argv) > 3:
        sites = [s for s in sites if re.search(sys.argv[3], s["name"])]
    print("%d variants" % len(sites), flush=True)
    os.makedirs(os.path.join(VERIF, "notes"), exist_ok=True)
    res = []
    with ThreadPoolExecutor(max_workers=jobs) as ex:
        for r in ex.map(run_variant, sites):
            print("%-58s %-9s %s   | %s" % (r["name"], r["status"], ",".join(r["hits"]), r["new"].strip()[:90]), flush=True)
            res.append(r)
    json.dump(res, open(os.path.join(VERIF, "notes", "sweep_%s%s.json" % (kind, ".part" if len(sys.argv) > 3 else "")), "w"), indent=1)
    for i in range(1, jobs):
        shutil.rmtree("/var/tmp/verif-sweep-target-%d" % i, ignore_errors=True)
