#!/usr/bin/env python3
"""Regenerates /verif/MANIFEST.json from the table below (single source of truth for the interface)."""
import json, os, subprocess

HERE = os.path.dirname(os.path.dirname(os.path.abspath(__file__)))

# property -> (technique, level text, design ref)
CLAIMED = {}
PENDING = {}


def claim(pid, technique, text, ref):
    CLAIMED[pid] = (technique, text, ref)


exec(open(os.path.join(HERE, "tools", "claims.py")).read())

props = [json.loads(l) for l in open(os.path.join(HERE, "properties.jsonl"))]
checks = []
na = []
for p in props:
    pid = p["id"]
    if pid in CLAIMED and os.path.exists(os.path.join(HERE, "rules", pid + ".py")):
        tech, text, ref = CLAIMED[pid]
        checks.append({
            "property_id": pid,
            "quick_cmd": "./check %s" % pid,
            "thorough_cmd": "./check %s --tier thorough" % pid,
            "evidence_file": "/verif/evidence/%s.json" % pid,
            "replay_cmd_template": "./check %s --replay {path}" % pid,
            "engine": "mirfacts+rules",
            "level_claimed": {"category": "other", "text": text, "design_ref": ref},
            "level_note": ("Static analysis only: decides structural clauses (necessary conditions) of the property on the MIR of /repo's "
                           "current tree, for every path/instantiation; the behavioural statement as a whole is NOT decided (see "
                           "coverage.not_decided in the evidence). Trusted: rustc MIR construction and drop elaboration, the fact extractor "
                           "in driver/, the rule tables in rules/%s.py, semantics of the named foreign APIs." % pid),
            "technique": tech,
        })
    else:
        na.append({"property_id": pid, "reason": PENDING.get(pid, "rules for this property are not built yet (work in progress); no claim is made")})

manifest = {
    "version": 1,
    "setup_cmd": "./setup.sh",
    "hooks": {
        "guard": "foyer_rs_foyer_verif",
        "enable": "unused: the analysis reads the compiler's MIR of the unmodified sources; no hook or instrumentation exists in /repo",
        "baseline_off_cmd": "cd /repo && cargo nextest run --workspace --no-fail-fast --tool-config-file pb:/w/lib/nextest.toml --profile pb --test-threads 8 --offline || cargo test --workspace --no-fail-fast --offline",
        "source_commits": [],
        "add_only": True,
    },
    "engines": [
        {"name": "mirfacts", "path": "driver/", "serves_properties": [c["property_id"] for c in checks],
         "kind_free_text": "rustc_private driver (nightly) injected as RUSTC_WORKSPACE_WRAPPER: dumps mir_promoted and drop-elaborated MIR of every body of the foyer crates as JSON facts"},
        {"name": "sa", "path": "sa/", "serves_properties": [c["property_id"] for c in checks],
         "kind_free_text": "Python analyses over the facts: CFG/dominators/must-pass-through, provenance and dependence slices, decision tables, lock regions and effects, ownership/pairing, codec extraction, sibling agreement"},
        {"name": "rules", "path": "rules/", "serves_properties": [c["property_id"] for c in checks],
         "kind_free_text": "one module per property: repository-specific rule instances, frozen tables, allow-lists, floors"},
    ],
    "checks": checks,
    "not_applicable": na,
    "notes": "All checks are static (technique family: static analysis). See DESIGN.md. Known findings: KNOWN_FINDINGS.txt.",
}
with open(os.path.join(HERE, "MANIFEST.json"), "w") as f:
    json.dump(manifest, f, indent=1)
print("MANIFEST.json: %d checks, %d not_applicable" % (len(checks), len(na)))
