#!/bin/bash
# tools/port_seed.sh <id> : re-bases seeded/<id>/patch.diff onto the current /repo HEAD with fuzzy context matching (scratch worktree),
# keeping the original as patch.orig.diff.  Only context lines may differ; the changed lines are identical.
set -eu
ID=$1; S=/verif/seeded/$ID; WT=/tmp/port.$ID
git -C /repo worktree remove --force $WT >/dev/null 2>&1 || true
git -C /repo worktree add --detach $WT HEAD >/dev/null 2>&1
trap 'git -C /repo worktree remove --force $WT >/dev/null 2>&1' EXIT
cd $WT
patch -p1 -F3 --no-backup-if-mismatch < $S/patch.diff
[ -f $S/patch.orig.diff ] || cp $S/patch.diff $S/patch.orig.diff
git diff > $S/patch.diff
echo "ported: $(git diff --stat | tail -1)"
