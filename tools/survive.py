#!/usr/bin/env python3
"""tools/survive.py <kind> [jobs] [name-regex] — for every variant of notes/sweep_<kind>.json that NO check reported, run the repository's pinned
test suite on a scratch copy with that variant applied and record whether it still passes.  A variant that is silent AND passes the
suite is exactly the kind of change the task asks the checks to detect (or to be argued behaviour-preserving); one that the suite kills
matters less.  Development aid (runs foyer's tests, so it is NOT part of any registered check); writes notes/sweep_<kind>_tests.json."""
import json, os, queue, re, shutil, subprocess, sys, tempfile
from concurrent.futures import ThreadPoolExecutor

VERIF = os.path.dirname(os.path.dirname(os.path.abspath(__file__)))
REPO = "/repo"
SLOTS = queue.Queue()
CMD = "cargo nextest run --workspace --no-fail-fast --tool-config-file pb:/w/lib/nextest.toml --profile pb --test-threads 8 --offline"


def run(v):
    scr = tempfile.mkdtemp(prefix="verif-surv.", dir="/var/tmp")
    slot = SLOTS.get()
    try:
        wt = os.path.join(scr, "wt")
        os.makedirs(wt)
        for f in subprocess.check_output(["git", "-C", REPO, "ls-files"], text=True).split("\n"):
            if f and os.path.isfile(os.path.join(REPO, f)):
                dst = os.path.join(wt, f)
                os.makedirs(os.path.dirname(dst), exist_ok=True)
                shutil.copy2(os.path.join(REPO, f), dst)
        p = os.path.join(wt, v["file"])
        src = open(p).read().split("\n")
        if src[v["line"] - 1] != v["old"]:
            return dict(name=v["name"], tests="stale")
        src[v["line"] - 1] = v["new"]
        open(p, "w").write("\n".join(src))
        env = dict(os.environ, CARGO_TARGET_DIR="/var/tmp/verif-surv-target-%d" % slot, CARGO_NET_OFFLINE="true")
        try:
            r = subprocess.run(CMD, shell=True, cwd=wt, env=env, stdout=subprocess.PIPE, stderr=subprocess.STDOUT, text=True, timeout=1500)
            out = r.stdout
        except subprocess.TimeoutExpired as e:
            out = (e.stdout or b"").decode("utf8", "replace") if isinstance(e.stdout, bytes) else (e.stdout or "")
            return dict(name=v["name"], tests="timeout (hang)", new=v["new"].strip())
        m = re.search(r"(\d+) tests run: (\d+) passed(?: \((\d+) \w+\))?(?:, (\d+) failed)?", out)
        failed = re.findall(r"^\s+(?:FAIL|SIGABRT|SIGSEGV|TIMEOUT)\s+\[[^\]]*\]\s+(\S+\s+\S+)", out, re.M)
        if "error: could not compile" in out or "error[E" in out:
            st = "nobuild"
        elif m and int(m.group(2)) >= 101 and not m.group(4):
            st = "PASS"
        else:
            st = "killed"
        return dict(name=v["name"], tests=st, failed=sorted(set(failed))[:6], new=v["new"].strip())
    finally:
        SLOTS.put(slot)
        shutil.rmtree(scr, ignore_errors=True)


if __name__ == "__main__":
    kind = sys.argv[1]
    jobs = int(sys.argv[2]) if len(sys.argv) > 2 else 2
    rx = sys.argv[3] if len(sys.argv) > 3 else "."
    for i in range(jobs):
        SLOTS.put(i)
    res_path = os.path.join(VERIF, "notes", "sweep_%s_tests.json" % kind)
    done = {x["name"]: x for x in json.load(open(res_path))} if os.path.exists(res_path) else {}
    vs = [v for v in json.load(open(os.path.join(VERIF, "notes", "sweep_%s.json" % kind))) if v["status"] == "silent" and re.search(rx, v["name"]) and v["name"] not in done]
    print("%d silent variants to test" % len(vs), flush=True)
    with ThreadPoolExecutor(max_workers=jobs) as ex:
        for r in ex.map(run, vs):
            print("%-58s %-8s %s | %s" % (r["name"], r["tests"], ",".join(r.get("failed", []))[:100], r.get("new", "")[:80]), flush=True)
            done[r["name"]] = r
            json.dump(sorted(done.values(), key=lambda x: x["name"]), open(res_path, "w"), indent=1)
    for i in range(jobs):
        shutil.rmtree("/var/tmp/verif-surv-target-%d" % i, ignore_errors=True)
