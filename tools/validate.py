#!/usr/bin/env python3
"""validate MANIFEST.json and every evidence file against the given schemas (uses the tooling venv's jsonschema)"""
import glob, json, sys
import jsonschema
ok = True
jsonschema.validate(json.load(open('/verif/MANIFEST.json')), json.load(open('/root/.vp/MANIFEST.schema.json')))
es = json.load(open('/root/.vp/EVIDENCE.schema.json'))
for f in sorted(glob.glob('/verif/evidence/*.json')):
    try:
        jsonschema.validate(json.load(open(f)), es)
    except Exception as e:
        ok = False
        print("INVALID", f, str(e)[:300])
print("valid" if ok else "INVALID")
sys.exit(0 if ok else 1)
