#!/usr/bin/env python3
"""Runs every registered quick check against every seeded change (each applied to a scratch copy of /repo, never to /repo) and
writes seeded/<id>/meta.json + seeded/MATRIX.md.  usage: tools/seed_matrix.py [jobs]"""
import json, os, re, shutil, subprocess, sys, tempfile
from concurrent.futures import ThreadPoolExecutor

VERIF = os.path.dirname(os.path.dirname(os.path.abspath(__file__)))
sys.path.insert(0, VERIF)
PROPS = ["C%02d" % i for i in range(1, 19)]

NEEDS = {}


def run_seed(sid):
    d = os.path.join(VERIF, "seeded", sid)
    scr = tempfile.mkdtemp(prefix="verif-seed.", dir="/var/tmp")
    wt = os.path.join(scr, "wt")
    out = {"seed": sid, "detected_by": {}, "silent": []}
    try:
        os.makedirs(wt)
        for f in subprocess.check_output(["git", "-C", "/repo", "ls-files"], text=True).split("\n"):
            if f and os.path.isfile(os.path.join("/repo", f)):
                dst = os.path.join(wt, f)
                os.makedirs(os.path.dirname(dst), exist_ok=True)
                shutil.copy2(os.path.join("/repo", f), dst)
        p = subprocess.run(["patch", "-p1", "-s", "-i", os.path.join(d, "patch.diff")], cwd=wt, stdout=subprocess.PIPE, stderr=subprocess.STDOUT, text=True)
        if p.returncode != 0:
            out["error"] = "patch does not apply: " + p.stdout[-300:]
            return out
        env = dict(os.environ, VERIF_REPO=wt, VERIF_WORK=os.path.join(scr, "work"), VERIF_EVIDENCE_DIR=os.path.join(scr, "evidence"))
        for prop in PROPS:
            r = subprocess.run([os.path.join(VERIF, "check"), prop], cwd=VERIF, env=env, stdout=subprocess.PIPE, stderr=subprocess.STDOUT, text=True)
            lines = r.stdout.split("\n")
            hits = []
            for i, l in enumerate(lines):
                if l.startswith("VIOLATION"):
                    rule = re.search(r"rule (\S+):", lines[i + 1]).group(1) if i + 1 < len(lines) and re.search(r"rule (\S+):", lines[i + 1]) else "?"
                    at = lines[i + 2].strip() if i + 2 < len(lines) else ""
                    hits.append({"rule": rule, "at": at[:220]})
            if hits:
                out["detected_by"][prop] = hits
            else:
                out["silent"].append(prop)
        return out
    finally:
        shutil.rmtree(scr, ignore_errors=True)


def main():
    jobs = int(sys.argv[1]) if len(sys.argv) > 1 else 3
    seeds = sorted(s for s in os.listdir(os.path.join(VERIF, "seeded")) if os.path.isfile(os.path.join(VERIF, "seeded", s, "patch.diff")))
    only = re.compile(sys.argv[2]) if len(sys.argv) > 2 else None      # optional: re-run only the matching seeds and merge their rows into MATRIX.md
    old_rows = {}
    if only is not None:
        seeds = [s for s in seeds if only.search(s)]
        mp = os.path.join(VERIF, "seeded", "MATRIX.md")
        if os.path.exists(mp):
            for l in open(mp):
                m = re.match(r"^\| (C\d\d\w?) \|", l)
                if m:
                    old_rows[m.group(1)] = l.rstrip("\n")
    with ThreadPoolExecutor(max_workers=jobs) as ex:
        results = list(ex.map(run_seed, seeds))
    rows = []
    for res in results:
        sid = res["seed"]
        d = os.path.join(VERIF, "seeded", sid)
        log = open(os.path.join(d, "confirm.log")).read() if os.path.exists(os.path.join(d, "confirm.log")) else ""
        notes = open(os.path.join(d, "notes.md")).read() if os.path.exists(os.path.join(d, "notes.md")) else ""
        meta_path = os.path.join(d, "meta.json")
        meta = json.load(open(meta_path)) if os.path.exists(meta_path) else {}
        meta.update({
            "property": sid[:3],
            "round": 3 if sid.endswith("c") else (2 if sid.endswith("b") else 1),
            "breaks": meta.get("breaks", ""),
            "needs_to_manifest": meta.get("needs_to_manifest", ""),
            "origin": "independent sub-agent given only the property text and a scratch worktree of /repo",
            "confirmed": "CONFIRMED" in log and "NOT CONFIRMED" not in log,
            "what_was_run": ["tools/confirm_seed.sh %s '<demo command>' : demo passes on the clean tree, fails with patch.diff, the 101 baseline tests pass with patch.diff" % sid,
                             "tools/seed_matrix.py : every quick check against a scratch copy of /repo with patch.diff applied"],
            "confirm_log_tail": [l for l in log.split("\n") if re.search(r"exit=|ok=|CONFIRMED|base commit|passed", l)][-8:],
            "detected_by": res.get("detected_by", {}),
            "checks_silent": res.get("silent", []),
        })
        if "error" in res:
            meta["error"] = res["error"]
        json.dump(meta, open(meta_path, "w"), indent=1)
        det = "; ".join("%s: %s" % (p, ", ".join(sorted({h["rule"] for h in hs}))) for p, hs in sorted(res.get("detected_by", {}).items())) or "NOT DETECTED"
        rows.append("| %s | %s | %s |" % (sid, "yes" if meta["confirmed"] else "no", det))
    if old_rows:
        for r_ in rows:
            old_rows[re.match(r"^\| (C\d\d\w?) \|", r_).group(1)] = r_
        rows = [old_rows[k] for k in sorted(old_rows)]
    with open(os.path.join(VERIF, "seeded", "MATRIX.md"), "w") as f:
        f.write("# Seeded changes vs. checks (generated by tools/seed_matrix.py)\n\n| seed (property) | independently confirmed | detected by (property: rules) |\n|---|---|---|\n" + "\n".join(rows) + "\n")
    print("\n".join(rows))


if __name__ == "__main__":
    main()
