#!/bin/sh
# prints the round-2 prompt for property $1 (worktree /tmp/seed2/$1): same as round 1 plus "different in kind from the round-1 change"
python3 /verif/tools/seed_prompt.py "$1" "/tmp/seed2/$1" "$(python3 -c "import json,sys;print(json.load(open('/verif/tools/round1_changes.json'))[sys.argv[1]])" "$1")"
